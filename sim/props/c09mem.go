package props

import (
	"fmt"
	"time"

	"verifsim/cluster"
	"verifsim/core"
	"verifsim/harness"

	"github.com/MixinNetwork/mixin/common"
	"github.com/MixinNetwork/mixin/config"
	"github.com/MixinNetwork/mixin/crypto"
)

// C09, changing membership (membership rig). In the cluster part of C09 the
// consensus key set never changes. The property speaks of the key set "at the
// snapshot's timestamp": here the set changes through real pledge / acceptance
// (plus the 12 h readiness delay) / removal operations over simulated days, and
//
//   - every snapshot any node applies is judged by the independent verifier
//     against the rig's OWN membership model at the snapshot's timestamp
//     (records strictly earlier, readiness delay, oldest first): mask inside the
//     vector, at least floor(2n/3)+1 signers, aggregate of exactly the masked keys
//     verifies over the payload hash;
//   - forged certificates are offered in between: below the threshold, one wrong
//     key, one mask bit flipped, and — the variant only a changing membership
//     allows — a certificate that is complete and correct for the key vector of
//     ANOTHER instant (before the latest acceptance matured, before the latest
//     removal, ...). None may be applied anywhere.
//
// Instants at which the implementation's vector is legitimately ambiguous to an
// outside model (inside the daily node-operation window, where a predicted
// removal candidate is already left out, and round zero of a pledging chain) are
// not judged by the model; the forged variants are offered outside that window.

type c09MemMon struct {
	cluster.BaseMonitor
	r         *crun
	judged    int
	ambiguous int
}

func (mon *c09MemMon) AfterStore(n *cluster.SNode, call *cluster.StoreCall) {
	if call.Name != "WriteSnapshot" || call.Err != nil || mon.r == nil || mon.r.mem == nil {
		return
	}
	m := mon.r.mem
	s := snapArg(call).Snapshot
	epoch := uint64(m.c.Epoch.UnixNano())
	hour := (s.Timestamp - epoch) / uint64(time.Hour) % 24
	owner := m.identOf(s.NodeId)
	if hour >= config.KernelNodeAcceptTimeBegin && hour <= config.KernelNodeAcceptTimeEnd || owner == nil || (s.RoundNumber == 0 && owner.idx >= m.c.Cfg.Nodes) || s.Signature == nil {
		mon.ambiguous++
		return
	}
	keys := c09ModelKeys(m, s.Timestamp)
	T, _ := c09ModelThreshold(m, s.Timestamp)
	mon.judged++
	m.r.out.Evals++
	if ok, why, _ := verifyCertificate(keys, T, s); !ok {
		m.c.Violate("C09", "snapshot-applied-with-invalid-certificate:changing-membership", fmt.Sprintf("n%d applied snapshot %s of chain %s (round %d, ts %d) although its certificate is not a threshold certificate of the %d-key set at that timestamp: %s", n.Idx, s.PayloadHash().String()[:8], s.NodeId.String()[:8], s.RoundNumber, s.Timestamp, len(keys), why), n)
	}
}

// c09ModelKeys is the rig's own consensus key vector at an instant outside the
// node-operation window: accepted members by the records strictly earlier,
// without those accepted less than the readiness period ago, oldest first.
func c09ModelKeys(m *memRig, ts uint64) []*crypto.Key {
	var keys []*crypto.Key
	for _, id := range m.modelAccepted(ts) {
		var since uint64
		for _, rec := range m.records {
			if rec.who == id.idx && rec.kind == "accept" && rec.ts < ts {
				since = rec.ts
			}
		}
		if id.idx >= m.c.Cfg.Nodes && since+uint64(config.KernelNodeAcceptPeriodMinimum) >= ts {
			continue // accepted, not yet part of the consensus
		}
		k := id.signer.PublicSpendKey
		keys = append(keys, &k)
	}
	return keys
}

// c09ModelThreshold is the certificate threshold at an instant: two thirds of
// the members plus one, where the members are the holders of the key vector AND
// the members accepted so recently that they may not sign yet (they count from
// their acceptance on; the kernel lets a short reference window pass first, so
// the model counts them only after one hour, well past that window and well
// inside the readiness period: before that hour it takes the lower of the two).
func c09ModelThreshold(m *memRig, ts uint64) (threshold, ofKeysOnly int) {
	base := 0
	keys := 0
	for _, id := range m.modelAccepted(ts) {
		var since uint64
		for _, rec := range m.records {
			if rec.who == id.idx && rec.kind == "accept" && rec.ts < ts {
				since = rec.ts
			}
		}
		if id.idx >= m.c.Cfg.Nodes && since+uint64(config.KernelNodeAcceptPeriodMinimum) >= ts {
			if since+uint64(time.Hour) < ts {
				base++
			}
			continue
		}
		base++
		keys++
	}
	return base*2/3 + 1, keys*2/3 + 1
}

func c09MemGen(rng *core.Rng, tier string, p *harness.Plan) {
	c09MemGenKind(rng, tier, p, rng.Chance(0.4))
}

// c09Directed: the race at the end of the node-operation window is part of every batch.
func c09Directed(tier string, seed uint64) []*harness.Plan {
	n := 1
	if tier == "thorough" {
		n = 4
	}
	var out []*harness.Plan
	for i := 0; i < n; i++ {
		rng := core.NewRng(core.SplitMix64(seed ^ core.SplitMix64(uint64(i)+0xc09d)))
		p := &harness.Plan{Seed: rng.Uint64(), Params: map[string]int64{}}
		c09MemGenKind(rng, tier, p, true)
		out = append(out, p)
	}
	return out
}

func c09MemGenKind(rng *core.Rng, tier string, p *harness.Plan, race bool) {
	q := memGen("C09")(rng, tier)
	p.Params, p.Ops = q.Params, nil
	p.Params["mem"] = 1
	if rng.Chance(0.5) {
		p.Params["future_accept"] = 1 // acceptances stamped ahead of the other nodes' clocks
	}
	if p.Params["nodes"] < 8 && rng.Chance(0.5) {
		p.Params["nodes"] = 8 // removals need more than seven members
	}
	// make sure the membership really changes, with forgeries around every change
	ops := []string{"forge", "pledge", "forge", "accept", "forge", "ordinary", "forge"}
	if race {
		// ten members (nine real ones and an accepted newcomer), then the race at the end of the window
		p.Params["nodes"] = 9
		ops = []string{"pledge", "accept", "forge", "raceforge", "ordinary", "forge"}
		q.Ops = nil
	} else if p.Params["nodes"] >= 8 {
		ops = append(ops, "remove", "forge", "ordinary", "forge")
	}
	for i, k := range ops {
		p.Ops = append(p.Ops, harness.Op{Kind: "mem." + k, A: int64(rng.IntN(1000)), N: rng.IntN(9), C: int64(rng.Uint64() >> 1), S: fmt.Sprint(k, i)})
	}
	for _, op := range q.Ops {
		p.Ops = append(p.Ops, op)
		if rng.Chance(0.5) {
			p.Ops = append(p.Ops, harness.Op{Kind: "mem.forge", A: int64(rng.IntN(1000)), C: int64(rng.Uint64() >> 1), S: "f" + op.S})
		}
	}
}

// c09Forge offers forged certificates over a fresh deposit on a leader's chain.
func c09Forge(m *memRig, op harness.Op, kinds map[string]int) {
	vr := core.NewRng(uint64(op.C))
	leaders := m.leaders()
	if len(leaders) == 0 {
		return
	}
	// outside the node-operation window
	hours := []int{0, 1, 2, 3, 4, 5, 10, 11, 12, 20, 21, 22, 23}
	m.jumpTo(hours[vr.IntN(len(hours))], 0)
	owner := leaders[vr.IntN(len(leaders))]
	type variant struct {
		name string
		cert func(s *common.Snapshot) *crypto.CosiSignature
	}
	vs := []variant{
		{"sub-threshold", func(s *common.Snapshot) *crypto.CosiSignature { return m.certify(s, 1+vr.IntN(2), -1) }},
		{"one-wrong-key", func(s *common.Snapshot) *crypto.CosiSignature { return m.certify(s, 0, 0) }},
		{"mask-bit-flipped", func(s *common.Snapshot) *crypto.CosiSignature {
			c := m.certify(s, 0, -1)
			if c != nil {
				c.Mask ^= 1 << uint(vr.IntN(len(m.modelAccepted(s.Timestamp))+2))
			}
			return c
		}},
	}
	// exactly two thirds plus one of the members that may sign, while a member accepted hours ago (not
	// yet allowed to sign) already counts for the threshold: one signer short
	vs = append(vs, variant{"threshold-of-signing-members-only", func(s *common.Snapshot) *crypto.CosiSignature {
		T, K := c09ModelThreshold(m, s.Timestamp)
		if K >= T {
			return nil
		}
		m.forceK = K
		defer func() { m.forceK = 0 }()
		return m.certify(s, 0, -1)
	}})
	// certificates that are right for another instant: around every membership record
	for _, rec := range m.records {
		rec := rec
		for _, other := range []uint64{rec.ts - 1, rec.ts + 1, rec.ts + uint64(config.KernelNodeAcceptPeriodMinimum) - 1, rec.ts + uint64(config.KernelNodeAcceptPeriodMinimum) + 2} {
			other := other
			vs = append(vs, variant{"keys-of-another-instant:" + rec.kind, func(s *common.Snapshot) *crypto.CosiSignature { return m.certifyAt(s, other) }})
		}
	}
	tried := 0
	order := vr.Perm(len(vs))
	if vr.Chance(0.6) {
		order = append([]int{3}, order...) // the one-signer-short variant is only possible for some hours after an acceptance
	}
	done := map[int]bool{}
	for _, i := range order {
		if done[i] {
			continue
		}
		done[i] = true
		if tried >= 3 || m.c.Halt {
			break
		}
		v := vs[i]
		m.seq++
		dep, _ := m.c.MakeDeposit(cluster.AssetBTC, common.NewIntegerFromString("0.25"), fmt.Sprintf("c09-forged-%d", m.seq), 0, []int{0}, 1)
		m.certOverride = v.cert
		it := m.candidate(owner.id, []*common.VersionedTransaction{dep}, 0)
		m.certOverride = nil
		if it == nil {
			continue // e.g. the key vector of the other instant is the same as now
		}
		if keys := c09ModelKeys(m, it.snap.Timestamp); len(keys) > 0 {
			T, _ := c09ModelThreshold(m, it.snap.Timestamp)
			if ok, _, _ := verifyCertificate(keys, T, it.snap); ok {
				// the construction happened to yield a genuine threshold certificate of the current key set
				// (e.g. the other instant's vector is a prefix of the current one): not a forgery
				kinds["not-a-forgery:"+v.name]++
				continue
			}
		}
		tried++
		kinds[v.name]++
		refused(m, "C09", "forged-certificate-applied:"+v.name, it, "a snapshot whose certificate is "+v.name)
	}
}

// c09RaceForge: the propagation race at the end of the node-operation window.
// A removal is finalized in the last seconds of the window; one node (the
// victim) has not got it yet when a snapshot stamped just after the window
// arrives whose certificate is complete and correct for the key vector BEFORE
// the removal. The victim's transport loop verifies it against what the victim
// knows (the old vector: fine) and queues it; the chain loop for that chain
// gets no turn; the removal arrives and is applied; the chain loop then looks
// at the queued snapshot again. At its timestamp the key vector is now the one
// without the removed member, and the certificate is not valid for it: the
// snapshot must not be stored, whatever was concluded (and remembered) before.
// The member count is chosen so that the threshold is the same before and
// after the removal (e.g. ten and nine members: seven signers both times).
func c09RaceForge(m *memRig, op harness.Op, kinds map[string]int) {
	c := m.c
	vr := core.NewRng(uint64(op.C))
	probe := func(why string) { m.r.out.Probes["race_forgery_not_possible:"+why]++ }
	if m.pledging() != nil {
		probe("somebody-is-pledging")
		return
	}
	// the last seconds of the window of a day on which a removal is allowed and every acceptance has matured
	epoch, day := uint64(c.Epoch.UnixNano()), uint64(24*time.Hour)
	target := m.now() + uint64(13*time.Hour)
	if lc := m.lastChange(); lc+uint64(13*time.Hour) > target {
		target = lc + uint64(13*time.Hour)
	}
	end := uint64(config.KernelNodeAcceptTimeEnd+1) * uint64(time.Hour)
	t := epoch + (target-epoch)/day*day + end - uint64(2500*time.Millisecond)
	for t < target {
		t += day
	}
	c.JumpTime(time.Duration(t - m.now()))
	c.Run(c.Q.Now + 200*time.Millisecond)
	n := len(c09ModelKeys(m, m.now()))
	if n < 8 || n*2/3 != (n-1)*2/3 {
		probe(fmt.Sprintf("%d-members", n))
		return
	}
	ref := m.ref()
	ts := m.now()
	elected := ref.Node.SimElect(common.TransactionTypeNodeRemove, ts)
	tx, err := ref.Node.SimBuildRemove(elected, ts)
	if err != nil || m.inj.chainFor(elected) == nil {
		probe("removal-not-buildable")
		return
	}
	var spend crypto.Key
	copy(spend[:], tx.Extra[:32])
	gone := m.byPub[spend]
	if gone == nil {
		probe("removed-member-unknown")
		return
	}
	// the victim: a real node that is neither the reference node, nor removed, nor the operator
	var victim *cluster.SNode
	for k := 0; k < c.Cfg.Nodes; k++ {
		cand := c.Nodes[(int(op.A)+k)%c.Cfg.Nodes]
		if cand.Alive && cand != ref && cand.Idx != gone.idx && cand.Id != elected {
			victim = cand
			break
		}
	}
	if victim == nil {
		probe("no-victim")
		return
	}
	m.inj.now = ts
	rem, err := m.inj.nextWith(m.inj.chainIndex(elected), false, tx)
	if err != nil {
		probe("removal-not-placeable")
		return
	}
	for to := 0; to < c.Cfg.Nodes; to++ {
		if to != victim.Idx {
			m.inj.deliver(c.External(), c.Nodes[to], rem.tx, rem.snap, time.Duration(to)*time.Millisecond)
		}
	}
	// the peers would hand the removal to the victim by themselves: its loop for that chain waits
	victim.PollOnly = map[crypto.Hash]bool{}
	for _, id := range victim.Node.SimChainIDs() {
		if id != elected {
			victim.PollOnly[id] = true
		}
	}
	m.r.fault("sched.chain_loop_held_back", c.Q.Now+20*time.Second)
	c.Run(c.Q.Now + 2200*time.Millisecond)
	if s, _ := ref.Store.ReadSnapshot(rem.snap.Hash); s == nil {
		victim.PollOnly = nil
		probe("removal-not-applied")
		return
	}
	gone.state, gone.since = common.NodeStateRemoved, rem.snap.Timestamp
	m.record("remove", gone, rem)
	// just past the end of the window
	for (m.now()-epoch)%day < end+uint64(200*time.Millisecond) && (m.now()-epoch)%day > uint64(12*time.Hour) {
		c.Run(c.Q.Now + 200*time.Millisecond)
	}
	// the forged snapshot on the chain of another member
	var owner *memIdent
	for _, id := range m.leaders() {
		if id.id != elected && id.idx != gone.idx && id.idx != victim.Idx && (owner == nil || vr.Chance(0.4)) {
			owner = id
		}
	}
	if owner == nil {
		victim.PollOnly = nil
		probe("no-owner")
		return
	}
	m.seq++
	dep, _ := c.MakeDeposit(cluster.AssetBTC, common.NewIntegerFromString("0.25"), fmt.Sprintf("c09-race-%d", m.seq), 0, []int{0}, 1)
	// (inside the window the removal candidate is already left out of the vector: the vector that still
	// holds the removed member is the one of an instant before the window opened that day)
	before := epoch + (rem.snap.Timestamp-epoch)/day*day + uint64(config.KernelNodeAcceptTimeBegin)*uint64(time.Hour) - uint64(time.Minute)
	m.certOverride = func(s *common.Snapshot) *crypto.CosiSignature { return m.certifyAt(s, before) }
	it := m.candidate(owner.id, []*common.VersionedTransaction{dep}, m.now())
	m.certOverride = nil
	if it == nil {
		victim.PollOnly = nil
		m.purge = false
		probe("forgery-not-buildable")
		return
	}
	if keys := c09ModelKeys(m, it.snap.Timestamp); len(keys) > 0 {
		T, _ := c09ModelThreshold(m, it.snap.Timestamp)
		if ok, _, _ := verifyCertificate(keys, T, it.snap); ok {
			victim.PollOnly = nil
			kinds["not-a-forgery:keys-before-the-removal"]++
			return
		}
	}
	// the victim hears of the snapshot first (its loop for that chain waits too) ...
	delete(victim.PollOnly, owner.id)
	m.inj.deliver(c.External(), victim, it.tx, it.snap, time.Millisecond)
	c.Run(c.Q.Now + 700*time.Millisecond)
	// ... then the removal gets through ...
	victim.PollOnly[elected] = true
	m.inj.deliver(c.External(), victim, rem.tx, rem.snap, time.Millisecond)
	c.Run(c.Q.Now + 3*time.Second)
	applied := false
	if s, _ := victim.Store.ReadSnapshot(rem.snap.Hash); s != nil {
		applied = true
		m.r.out.Probes["race_forgery_primed_before_the_removal_arrived"]++
	}
	if !applied {
		// the removal did not get through: the node would judge the queued snapshot by the membership it
		// knows, which is not what this scenario is about; a restart empties its pools
		c.Crash(victim, false)
		m.r.fault("crash.step_boundary", c.Q.Now)
		if err := c.Restart(victim); err != nil {
			c.Violate("C22", "restart-failed", err.Error(), victim)
			return
		}
		victim.PollOnly = nil
		m.inj.deliver(c.External(), victim, rem.tx, rem.snap, time.Millisecond)
		c.Run(c.Q.Now + 3*time.Second)
		probe("removal-late-at-victim")
		m.purge = false
		return
	}
	// ... and only now the chain loop looks at the queued snapshot
	victim.PollOnly = nil
	c.Run(c.Q.Now + 3*time.Second)
	kinds["keys-before-a-removal:verified-before-it-arrived"]++
	m.refused = append(m.refused, it)
	m.r.out.Evals++
	if s, _ := victim.Store.ReadSnapshot(it.snap.Hash); s != nil && applied && !c.Halt {
		c.Violate("C09", "forged-certificate-applied:keys-before-a-removal-verified-before-it-arrived", fmt.Sprintf("n%d stored snapshot %s (ts %d) certified by the key vector before the removal at %d", victim.Idx, it.snap.Hash.String()[:8], it.snap.Timestamp, rem.snap.Timestamp), victim)
		return
	}
	if m.purge && !c.Halt {
		m.purgePools()
	}
}

func c09MemExec(p *harness.Plan) *harness.Outcome {
	mon := &c09MemMon{}
	kinds := map[string]int{}
	r, m, fail := runMembership("C09", p, nil, nil, func(r *crun) {
		mon.r = r
		r.c.AddMonitor(mon)
		r.extra["mem.forge"] = func(op harness.Op, idx int) { c09Forge(r.mem, op, kinds) }
		r.extra["mem.raceforge"] = func(op harness.Op, idx int) { c09RaceForge(r.mem, op, kinds) }
	})
	if fail != nil {
		return fail
	}
	defer r.c.Close()
	c := r.c
	if !c.Halt {
		c.Run(c.Q.Now + 3*time.Second)
		for _, it := range m.refused {
			if w := m.anywhere(it); w >= 0 && !c.Halt {
				c.Violate("C09", "forged-certificate-applied:late", fmt.Sprintf("n%d stored snapshot %s with a forged certificate", w, it.snap.Hash.String()[:8]), c.Nodes[w])
			}
		}
	}
	r.out.Probes["snapshots_judged_by_model"] += mon.judged
	r.out.Probes["snapshots_at_ambiguous_instants"] += mon.ambiguous
	r.out.Probes["membership_records"] += len(m.records)
	r.out.Probes["forged_certificates_offered"] += len(m.refused)
	for k, v := range kinds {
		r.out.Faults["byz.certificate."+k] += v
	}
	relabelPanic(r, "C09")
	return r.finish(len(m.records) > 0 && len(m.refused) > 0 && mon.judged > 0, map[string]any{"mode": "membership rig", "records": len(m.records), "forged": len(m.refused), "judged": mon.judged, "ambiguous": mon.ambiguous, "kinds": kinds})
}
