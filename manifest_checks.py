check("C23", "exploration",
  "deterministic simulation: seeded operation/fault sequences on the real cache store vs. a credit model",
  "Seeded search over interleaved client operation sequences with clean and cache-lost restarts on the real BadgerStore cache API, compared step by step with a reference model derived from the property text; a clean batch is evidence, not proof.",
  "Badger commit atomicity (A1); scheduling at Store-call granularity (A3); cache TTL never fires inside a run.",
  "DESIGN.md section 8 C23")
_r3note = "Badger commit atomicity (A1); scheduling at Store-call granularity (A3)."
_r1note = "A1 crash points are Store-call boundaries; A2 curve/hash libraries correct; A4 replaced loop scaffolding (transport, timers) is not itself the mechanism; A5 7-9 real nodes; sampled schedules, not exhaustive."
check("C03", "exploration", "deterministic simulation: seeded interleavings of lock/write/finalize clients on the real store vs. a holder model",
  "Seeded search over call-granularity interleavings of ordinary and fork lock requests, body writes, finalizations and restarts on the real BadgerStore, with the whole holder/body/finalization model re-read after each operation.",
  _r3note, "DESIGN.md section 8 C03")
check("C04", "exploration", "deterministic simulation: seeded reservation/validation/finalization sequences on the real store vs. a first-binder model",
  "Seeded search over interleaved key reservations, real Validate calls and finalizations with overlapping one-time keys and restarts; failed finalizations compared by full dump.",
  _r3note, "DESIGN.md section 8 C04")
check("C15", "exploration", "deterministic simulation: seeded finalization histories with failing members, full before/after database dumps vs. an effect model",
  "Seeded histories of mixed batches finalized through the real WriteSnapshot incl. members that cannot finalize and re-included transactions; every write judged by a full key/value dump.",
  _r3note, "DESIGN.md section 8 C15")
check("C26", "exploration", "deterministic simulation: seeded resubmission histories of round work with restarts vs. a once-per-snapshot credit model",
  "Seeded monotone-prefix submission histories (repeats, stale rounds, day changes, restarts) through the real WriteRoundWork compared with a credit model after every step.",
  _r3note, "DESIGN.md section 8 C26")
check("C27", "exploration", "deterministic simulation: seeded membership transition sequences through the real finalization path vs. a life-cycle automaton",
  "Seeded valid and invalid pledge/accept/cancel/remove attempts finalized through the real WriteSnapshot with restarts; accepted implies model-allowed, history equals model, rejected writes change nothing.",
  _r3note + " Membership snapshots arrive in strictly increasing timestamp order (C28).", "DESIGN.md section 8 C27")
check("C35", "exploration", "deterministic simulation: seeded write/list/look-up/restart sequences on the real topology index vs. an ordered-list model",
  "Seeded finalized writes, cursor listings (incl. the 500 limit), look-ups and restarts on the real store compared with an ordered list.",
  _r3note, "DESIGN.md section 8 C35")
check("C22", "fault_enumeration", "deterministic cluster simulation with crash injection before/after arbitrary Store calls, start-up validator + ledger scan after every restart",
  "Seeded multi-chain workloads on 7-9 real nodes with crashes cut before/after an arbitrary upcoming mutating Store call or at step boundaries (optionally losing the un-synced cache DB); every restart must succeed and pass the graph validator over all rounds and a full ledger scan; convergence afterwards. Crash points are sampled per history, not enumerated exhaustively.",
  _r1note, "DESIGN.md section 8 C22")
check("C20", "exploration", "deterministic cluster simulation with Byzantine reference tampering; monitor on every durable round transition",
  "Seeded cluster runs under network faults, skew, crash/restart and a Byzantine proposer re-sending proposals with self/stale/unknown/regressing references; every StartNewRound/UpdateEmptyHeadRound judged against pre/post durable state and an independent round-hash recomputation; per-step fingerprint of durable and in-memory links.",
  _r1note, "DESIGN.md section 8 C20")
check("C18", "exploration", "deterministic cluster simulation: independent recomputation of every closed round on every node, cross-node agreement, restart validator",
  "Seeded cluster runs with bursts, reordering and crash/restart; every closed round on every node is recomputed from the documented commitment and compared with the stored record, the live final round and the other nodes. The equal-timestamp tie-break is not reachable at system level.",
  _r1note, "DESIGN.md section 8 C18")
check("C09", "exploration", "deterministic cluster simulation with finalization injection (valid and forged quorum certificates), independent ed25519 verifier on every snapshot written",
  "All history of a run is manufactured by the simulator (it holds every key) and delivered through the finalized-bundle + finalization messages with families of certificate variants, duplicated and reordered, before and after restarts; an independent verifier judges every WriteSnapshot on every node; valid certificates must be accepted everywhere once faults stop.",
  _r1note + " Membership is static within a run (genesis members, runs with more than 7 nodes stay outside the node-operation window).", "DESIGN.md section 8 C09")
check("C19", "exploration", "deterministic cluster simulation with finalization injection at adversarial timestamps; round-content invariants after every write",
  "Validly certified snapshots are injected at timestamps clustered around the round gap and day boundaries, with equal timestamps and re-used transactions, duplicated and reordered; every stored and live round is checked after every write and in a final sweep; forbidden candidates must be stored nowhere; closing a round must not panic.",
  _r1note, "DESIGN.md section 8 C19")
check("C01", "exploration", "deterministic cluster simulation with an adversarial client and Byzantine peer bundles; by-construction and independent math/big conservation oracle at every admission point",
  "Ledgers grown by real consensus, then honest and conservation-forged transactions through the RPC path and as unauthenticated peer bundles under partitions, skew and crash/restart; every admission (RPC accept, queue-worker forward, durable persist, finalization) judged by construction and by recomputation from the admitting node's own records. Input space is sampled through the generators only.",
  _r1note, "DESIGN.md section 8 C01")
check("C02", "exploration", "deterministic cluster simulation with an adversarial client; by-construction and independent crypto/ed25519 authorization oracle at every admission point",
  "As C01 with authorization forgeries (non-owner, below threshold, empty maps, index out of range, flipped bit, payload changed after signing, swapped maps, aggregate anomalies); per-input maps re-verified with crypto/ed25519 against the admitting node's stored key lists; aggregate signatures judged by construction.",
  _r1note, "DESIGN.md section 8 C02")
check("C05", "exploration", "deterministic cluster simulation: structure-aware transaction shapes pushed through the unauthenticated peer bundle path and the RPC path; panic tripwire on every node step",
  "30 structure-aware shapes plus the C01/C02 forgeries validated by the real background queue worker, RPC admission and snapshot validation over ledgers with outputs of every materializable type; any panic escaping a node step is a violation. Two genuine defects were found and repaired (known_findings.json).",
  _r1note, "DESIGN.md section 8 C05")
check("C16", "exploration", "deterministic cluster simulation with capped-asset deposit scenarios; tripwire on every finalization write of a validated batch",
  "Real consensus over deposits near asset capacities (same batch and concurrent proposals), asset-information clashes, transfers, withdrawals and double spends under network faults and crash/restart; any error or panic of the finalization write of a batch whose members all validated is a violation, classified by cause. One defect repaired, two recorded as known findings (known_findings.json).",
  _r1note, "DESIGN.md section 8 C16")
check("C17", "exploration", "deterministic cluster simulation: per-node supply model after every finalization plus full scans of unconsumed outputs",
  "Recorded asset totals compared with each node's own finalized history after every finalization and with the sum of unconsumed outputs (full output scan) at checkpoints, after restarts and at the end; deposits, transfers, withdrawal submissions, double spends, network faults, crash/restart.",
  _r1note + " Mint and node operations are not part of these runs.", "DESIGN.md section 8 C17")
check("C21", "fault_enumeration", "deterministic cluster simulation: enumerated crash boundaries around the consensus marker write with intra-node interleaving of other chain loops",
  "For each seeded history with a real node-removal operation, every enumerated crash boundary around the snapshot write / consensus marker write, with and without other chain loops interleaved at the boundary (Store-call granularity); after restart the recorded consensus operation must not be older than the durably finalized one. The defect found was repaired (known_findings.json).",
  _r1note + " Interleaving is at Store-call granularity (A3).", "DESIGN.md section 8 C21")
check("C24", "exploration", "deterministic cluster simulation with message withholding, stalled links and clock jumps; per-step diff of local proposals against the cache queue, bounded liveness after faults stop",
  "Local proposals are kept in flight by withholding consensus messages on chosen links, partitions (stalled links) and clock jumps past the round gap; after every step the retired proposals' members are looked up (finalization, body, other active proposals, cache queue records); after the last fault every admitted transaction must finalize everywhere within 120 simulated seconds without client retries.",
  _r1note + " No crash faults and deposits only in these runs (a crash or a forwarded spend of a not-yet-seen input legitimately drops a pending transaction).", "DESIGN.md section 8 C24")
check("C12", "exploration", "deterministic schedule simulation of concurrent nonce users at cooperative yield points; enumeration for up to 3 tasks; porcupine linearizability + key-recovery oracle",
  "2-5 tasks share copies of one nonce handle; exactly one runs at a time, parked at yield points inside the check-then-act (hook H7); schedules are explicit decision lists, all enumerated for half of the configurations with at most 3 tasks and seeded otherwise; histories checked with porcupine against a single-assignment register plus direct key-recovery and response verification.",
  "Interleavings finer than the 4 yield points inside respond() are not explored; curve arithmetic trusted.", "DESIGN.md section 8 C12")
check("C30", "exploration", "deterministic simulation of connection attempts under clock skew, delay, replay, redirection and bit flips; independent ed25519/recipient/freshness oracle",
  "Real BuildAuthenticationMessage output travels over a simulated link (delayed, replayed, redirected, reflected, bit-flipped) to the real AuthenticateAs of nodes with skewed and jumping clocks; every acceptance is re-derived independently.",
  "The QUIC/TLS part of the handshake is a stub; blake3/ed25519 trusted.", "DESIGN.md section 8 C30")
check("C31", "exploration", "deterministic cluster simulation with signature-heavy admissible transactions; every frame handed to the transport seam measured against the transport maximum",
  "35+ admissible transactions whose signed envelopes total more than the 32 MiB transport maximum (256 inputs x 64 signatures each) are admitted on one node so that the real batcher forms its batches; every frame any node hands to the transport is measured and bundle frames are parsed back. Few runs per tier (half a million signatures per run). The defect found was repaired (known_findings.json).",
  _r1note + " QUIC stream framing is a stub; the refuse-before-allocate rule of the receiver is not exercised.", "DESIGN.md section 8 C31")
_memnote = _r1note + " Long-horizon membership rig: the history (ordinary snapshots, pledge, accept, removal, custodian update) is manufactured by finalization injection with certificates computed from the nodes' own key vector at the snapshot timestamp; the clock jumps from window to window; key-only identities stand for members beyond the real nodes; the universal mint is not reachable in these histories."
check("C10", "exploration", "deterministic cluster simulation over long-horizon membership histories (clock jumps, injected pledge/accept/remove, restarts); arithmetic quorum-intersection oracle on (threshold, key vector) queried from every node at all boundaries",
  "Membership histories over simulated weeks; after every record every live node is asked for the certificate threshold and the key vector of every chain (incl. the pledging chain's round zero) at all record, +30 s, +12 h and window boundaries (+-1 ns); 3*(2T-|K|) > |K| judged by arithmetic. One genuine defect (round-zero acceptance certificate) is recorded as a known finding.",
  _memnote, "DESIGN.md section 8 C10")
check("C11", "exploration", "deterministic cluster simulation over long-horizon membership histories; cross-node and model comparison of the membership view at record boundaries, before and after restarts",
  "After every membership record every live node's accepted-member view is compared across nodes and with the rig's own model at t-1, t, t+1 and the 12 h / reference-threshold boundaries; restarts interleaved.",
  _memnote, "DESIGN.md section 8 C11")
check("C28", "exploration", "deterministic cluster simulation over membership/custodian histories with validly certified forbidden variants (batched consensus operation, stale/missing reference, timestamp not after the last operation) and a scan of every node's durable consensus chain",
  "Before valid operations the simulator injects certified snapshots that batch a consensus operation with a deposit, reference a stale or no consensus operation, or are stamped at/before the operation they reference (a pledge stamped before a just finalized custodian update, valid in every other respect); none may be stored; every node's CONSENSUSSNAPSHOT chain and multi-transaction snapshots are scanned at the end.",
  _memnote + " The proposal (announcement) path is exercised only through the validation it shares with the finalization path.", "DESIGN.md section 8 C28")
check("C29", "exploration", "deterministic cluster simulation over membership histories with clock jumps into and out of the operation windows; cross-node election queries against a membership model; out-of-window and non-elected-proposer variants must be refused",
  "All live nodes are asked for the elected operator of four operation types at record, +12 h, day and window boundaries (+-1 ns): equal across nodes, never the oldest or newest accepted member of the rig's model, never the removal candidate; certified pledges/acceptances outside their windows and pledges/removals on a non-elected chain must be stored nowhere.",
  _memnote + " Membership sizes 7..~30 and tens of distinct days per run rather than 7..50 and years.", "DESIGN.md section 8 C29")
check("C34", "exploration", "deterministic cluster simulation over evolving custodian states: valid updates through real finalization, 18 kinds of single-defect updates injected with valid certificates, durable custodian history compared with a model after updates and restarts",
  "Each valid update installs a fresh custodian account and entry set (keys kept, moved between members, or fresh) so that later updates are judged against random previous states; defective variants (order, duplicates, each signature, approval by wrong/replaced custodian, underpayment, entry count, unknown node, foreign payee, bit flip, forbidden hour, non-elected proposer, deposit authorized by a replaced custodian) must be stored nowhere; every node's durable custodian history is read back and compared entry by entry.",
  _memnote + " Entry sets of 7..~15 rather than 50; the pure encode/parse round trip is covered only for the updates that occur in the histories.", "DESIGN.md section 8 C34")
