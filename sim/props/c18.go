package props

import (
	"fmt"
	"sort"
	"time"

	"verifsim/cluster"
	"verifsim/core"
	"verifsim/harness"

	"github.com/MixinNetwork/mixin/common"
	"github.com/MixinNetwork/mixin/crypto"
)

// C18 — round hashes are a deterministic function of the round's snapshot
// set (system-level part).
//
// R1: bursts of transactions make rounds hold several snapshots; reordering,
// duplication and partitions make nodes receive a round's snapshots in
// different orders; crash/restart makes the start-up validator (a separate
// implementation) and the final-round reload recompute what the live node
// computed. Oracle: an independent recomputation from the documented
// commitment (sorted by timestamp, then hash) must equal every node's stored
// round record and in-memory final round, and all nodes must agree.

type c18Mon struct {
	cluster.BaseMonitor
	r          *crun
	checked    int
	multi      int
	orderDiffs int
	arrival    map[int]map[string][]crypto.Hash // node -> chain:round -> arrival order
}

func (m *c18Mon) AfterStore(n *cluster.SNode, call *cluster.StoreCall) {
	if call.Name != "WriteSnapshot" || call.Err != nil {
		return
	}
	snap := snapArg(call)
	key := fmt.Sprintf("%s:%d", snap.NodeId.String()[:8], snap.RoundNumber)
	if m.arrival[n.Idx] == nil {
		m.arrival[n.Idx] = map[string][]crypto.Hash{}
	}
	m.arrival[n.Idx][key] = append(m.arrival[n.Idx][key], snap.PayloadHash())
}

// check compares all closed rounds across nodes and with the reference.
func (m *c18Mon) check(final bool) {
	c := m.r.c
	alive := c.AliveNodes()
	if len(alive) == 0 {
		return
	}
	chains := alive[0].Node.SimChainIDs()
	for _, chain := range chains {
		// in-memory final round of every node equals the reference over its own store
		minHead := ^uint64(0)
		for _, n := range alive {
			ch := n.Node.SimChain(chain)
			if ch == nil || ch.State == nil {
				minHead = 0
				continue
			}
			fr := ch.State.FinalRound
			snaps, err := n.Store.ReadSnapshotsForNodeRound(chain, fr.Number)
			if err != nil || len(snaps) == 0 {
				c.Violate("C18", "final-round-without-snapshots", fmt.Sprintf("n%d chain %s final round %d has no stored snapshots (%v)", n.Idx, chain.String()[:8], fr.Number, err), n)
				return
			}
			start, hash := roundHashRef(chain, fr.Number, snaps)
			m.checked++
			if hash != fr.Hash || start != fr.Start {
				c.Violate("C18", "live-final-round-hash", fmt.Sprintf("n%d chain %s round %d: live hash %s start %d, recomputed %s start %d over %d snapshots", n.Idx, chain.String()[:8], fr.Number, fr.Hash.String()[:8], fr.Start, hash.String()[:8], start, len(snaps)), n)
				return
			}
			// what the live node would compute if it closed its current round now must be the function of
			// the snapshots that round holds right now (not of an earlier, smaller set)
			if live := ch.SimLiveRoundAsFinal(); live != nil {
				var cur []*common.SnapshotWithTopologicalOrder
				for _, s := range ch.SimCacheSnapshots() {
					cur = append(cur, &common.SnapshotWithTopologicalOrder{Snapshot: s})
				}
				start, hash := roundHashRef(chain, ch.State.CacheRound.Number, cur)
				m.checked++
				if hash != live.Hash || start != live.Start {
					c.Violate("C18", "live-round-hash-not-a-function-of-its-snapshots", fmt.Sprintf("n%d chain %s live round %d holds %d snapshots, closing it now gives hash %s start %d, the commitment over those snapshots is %s start %d", n.Idx, chain.String()[:8], ch.State.CacheRound.Number, len(cur), live.Hash.String()[:8], live.Start, hash.String()[:8], start), n)
					return
				}
			}
			if ch.State.CacheRound.Number < minHead {
				minHead = ch.State.CacheRound.Number
			}
		}
		for round := uint64(0); round < minHead && minHead != ^uint64(0); round++ {
			var refSet []string
			var refHash crypto.Hash
			for i, n := range alive {
				snaps, err := n.Store.ReadSnapshotsForNodeRound(chain, round)
				if err != nil || len(snaps) == 0 {
					c.Violate("C18", "closed-round-missing", fmt.Sprintf("n%d chain %s closed round %d unreadable (%v)", n.Idx, chain.String()[:8], round, err), n)
					return
				}
				var set []string
				for _, s := range snaps {
					set = append(set, s.PayloadHash().String())
				}
				sort.Strings(set)
				start, hash := roundHashRef(chain, round, snaps)
				rec, err := n.Store.ReadRound(hash)
				m.checked++
				if err != nil || rec == nil || rec.Number != round || rec.NodeId != chain || rec.Timestamp != start {
					c.Violate("C18", "stored-round-hash", fmt.Sprintf("n%d chain %s round %d: no round record under the recomputed hash %s (%v %v)", n.Idx, chain.String()[:8], round, hash.String()[:8], rec, err), n)
					return
				}
				if i == 0 {
					refSet, refHash = set, hash
					if len(set) > 1 && final {
						m.multi++
					}
					continue
				}
				if fmt.Sprint(set) != fmt.Sprint(refSet) || hash != refHash {
					c.Violate("C18", "nodes-disagree-on-round", fmt.Sprintf("chain %s round %d differs between n%d and n%d: %d vs %d snapshots", chain.String()[:8], round, alive[0].Idx, n.Idx, len(refSet), len(set)), n)
					return
				}
			}
		}
	}
	if final {
		// reach: how many multi-snapshot rounds were received in different orders
		seen := map[string]string{}
		for _, per := range m.arrival {
			for key, order := range per {
				if len(order) < 2 {
					continue
				}
				s := fmt.Sprint(order)
				if prev, ok := seen[key]; ok && prev != s {
					m.orderDiffs++
				}
				seen[key] = s
			}
		}
	}
}

func (m *c18Mon) OnRestart(n *cluster.SNode) {
	total, invalid, err := n.Store.ValidateGraphEntries(m.r.c.NetworkId, 1<<40)
	if err != nil || invalid > 0 {
		m.r.c.Violate("C18", "startup-validator-disagrees", fmt.Sprintf("validator after restart: %d/%d invalid, err %v", invalid, total, err), n)
	}
	m.r.out.Evals++
}

func c18Gen(rng *core.Rng, tier string) *harness.Plan {
	p := &harness.Plan{Seed: rng.Uint64(), Params: map[string]int64{}}
	baseClusterParams(rng, p)
	if p.Params["reorder_ppm"] == 0 && rng.Chance(0.6) {
		p.Params["reorder_ppm"] = int64(20000 + rng.IntN(150000))
	}
	dur := time.Duration(35+rng.IntN(25)) * time.Second
	if tier == "thorough" {
		dur = time.Duration(60+rng.IntN(100)) * time.Second
	}
	p.Params["dur_ms"] = int64(dur / time.Millisecond)
	// bursts: many deposits to one or two nodes within a few seconds
	bursts := 2 + rng.IntN(3)
	seq := 0
	for b := 0; b < bursts; b++ {
		at := rng.Dur(2*time.Second, dur-8*time.Second)
		target := rng.IntN(9)
		for k := 0; k < 4+rng.IntN(8); k++ {
			seq++
			n := target
			if rng.Chance(0.2) {
				n = rng.IntN(9)
			}
			p.Ops = append(p.Ops, harness.Op{At: int64((at + rng.Dur(0, 6*time.Second)) / time.Microsecond), Kind: "deposit", S: fmt.Sprint("b", seq), N: n, A: int64(rng.IntN(4)), B: int64(rng.IntN(2000)), C: int64(rng.IntN(20))})
		}
	}
	honestWorkload(rng, p, 2*time.Second, dur, 3+rng.IntN(5), 2+rng.IntN(6))
	networkFaults(rng, p, 2*time.Second, dur, rng.IntN(4))
	for i := 0; i < 1+rng.IntN(3); i++ {
		p.Ops = append(p.Ops, harness.Op{At: int64(rng.Dur(5*time.Second, dur) / time.Microsecond), Kind: "crash", N: rng.IntN(9), A: int64(300 + rng.IntN(5000))})
	}
	for i := 0; i < 12; i++ {
		p.Ops = append(p.Ops, harness.Op{At: int64(rng.Dur(4*time.Second, dur) / time.Microsecond), Kind: "checkpoint"})
	}
	sortOps(p)
	return p
}

func c18Exec(p *harness.Plan) *harness.Outcome {
	r, err := newClusterRun("C18", p)
	if err != nil {
		o := harness.NewOutcome()
		o.ToolError = err.Error()
		return o
	}
	defer r.c.Close()
	mon := &c18Mon{r: r, arrival: map[int]map[string][]crypto.Hash{}}
	r.c.AddMonitor(mon)
	r.extra["checkpoint"] = func(harness.Op, int) { mon.check(false) }
	if err := r.c.Boot(); err != nil {
		r.out.ToolError = err.Error()
		return r.out
	}
	r.schedule()
	r.c.Run(time.Duration(p.P("dur_ms", 40000)) * time.Millisecond)
	fin, total := 0, 0
	if !r.c.Halt {
		fin, total = r.settle(60*time.Second, true)
	}
	if !r.c.Halt {
		mon.check(true)
	}
	r.out.Evals += mon.checked
	r.out.Probes["rounds_checked"] += mon.checked
	r.out.Probes["multi_snapshot_rounds"] += mon.multi
	r.out.Probes["rounds_received_in_different_orders"] += mon.orderDiffs
	r.out.Probes["equal_timestamp_tiebreak_reached"] += 0
	r.out.Probes["accepted_finalized"] += fin
	r.out.Probes["accepted_total"] += total
	relabelPanic(r, "C18")
	return r.finish(mon.multi > 0, map[string]any{"rounds_checked": mon.checked, "multi_snapshot_rounds": mon.multi, "order_differences": mon.orderDiffs, "finalized": fin, "accepted": total})
}

func init() {
	harness.Register(&harness.Property{
		ID:    "C18",
		Level: "exploration",
		Rule: "seeded cluster runs with transaction bursts (so rounds hold several snapshots), reordering/duplication/partitions (nodes receive a round's snapshots in different orders) and crash/restart (start-up validator and final-round reload recompute the hashes); every closed round of every chain on every node is recomputed independently and compared with the stored round record, the in-memory final round and the other nodes; " +
			"at 12 checkpoints per run and at the end the hash the live node would compute when closing its current round now is compared with the commitment over the snapshots that round holds now; " +
			"non-trivial = at least one closed round with more than one snapshot; distinct = canonical-log digests. Not reachable: equal timestamps inside one round (the live path rejects them), so the (timestamp,hash) tie-break is not exercised.",
		Components: clusterComponents,
		Assume:     clusterAssume,
		Gen:        c18Gen,
		Exec:       c18Exec,
		QuickRuns:  64, ThoroughRuns: 3000,
		QuickWall: 45 * time.Second, ThoroughWall: 12 * time.Minute,
	})
}
