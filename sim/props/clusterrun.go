package props

import (
	"fmt"
	"os"
	"sort"
	"strings"
	"time"

	"verifsim/cluster"
	"verifsim/core"
	"verifsim/harness"

	"github.com/MixinNetwork/mixin/common"
	"github.com/MixinNetwork/mixin/crypto"
)

// crun is one execution of the cluster rig (R1) driven by a plan.
type crun struct {
	prop string
	plan *harness.Plan
	c    *cluster.Cluster
	out  *harness.Outcome
	rng  *core.Rng

	coins       map[int][]*cluster.Coin // produced by plan op index
	txOf        map[int]*common.VersionedTransaction
	accepted    []crypto.Hash // submissions the network must eventually finalize
	conflicts   map[crypto.Hash]bool
	lostQueue   map[int]bool // nodes that lost their cache DB
	backedUp    map[int]bool
	submittedTo map[crypto.Hash]int // accepted submission -> node it was handed to
	lastFault   time.Duration
	extra       map[string]func(op harness.Op, idx int) // property-specific op kinds
	settled     func() bool                             // optional extra convergence predicate
	mem         *memRig                                 // membership rig of this run, if any
}

var clusterComponents = map[string]string{
	"kernel consensus/validation/round/graph/election/queue code incl. bodies of QueuePollSnapshots, AggregateMintWork, AggregateRoundSpace": "real (stepped one iteration per call, no kernel goroutine)",
	"storage.BadgerStore": "real (Badger on tmpfs, behind an intercepting wrapper)",
	"p2p message builders, parser, dispatcher, graph-sync comparison":                               "real",
	"QUIC transport, TLS, relayer forwarding, send/receive/sync loop scaffolding":                   "stub: simulated transport (delay/drop/dup/reorder/partition), all nodes direct neighbours",
	"loop scaffolding of loopCacheQueue, ConsumeFinalActions, MintLoop, ElectionLoop, graph sender": "stub: simulator schedules the real loop bodies with the real periods",
	"clock (kernel/internal/clock, p2p recently-sent filter), entropy (crypto.ReadRand)":            "simulated (per-node skew; seeded DRBG)",
	"ristretto memo cache": "real, Wait() after every step",
	"RPC/HTTP":             "not simulated; clients call Node.QueueTransaction directly",
}

var clusterAssume = []string{
	"A1 Badger commit atomic and durable at return; crash points are Store-call boundaries",
	"A2 edwards25519, sha512, blake3 correct",
	"A4 replaced loop scaffolding is not a mechanism of the property",
	"A5 membership bounded by the rig (7-9 real nodes)",
	"A6 simulated time stays below the real date",
}

// baseClusterParams draws the swarm configuration shared by cluster plans.
func baseClusterParams(rng *core.Rng, p *harness.Plan) {
	p.Params["nodes"] = 7
	if rng.Chance(0.25) {
		p.Params["nodes"] = int64(8 + rng.IntN(2))
	}
	p.Params["start_s"] = int64(3600 + rng.IntN(20*3600))
	if rng.Chance(0.5) {
		p.Params["drop_ppm"] = int64(rng.IntN(30000))
	}
	if rng.Chance(0.4) {
		p.Params["dup_ppm"] = int64(rng.IntN(50000))
	}
	if rng.Chance(0.3) {
		p.Params["reorder_ppm"] = int64(rng.IntN(100000))
	}
	p.Params["maxlat_ms"] = int64(10 + rng.IntN(200))
}

func newClusterRun(prop string, p *harness.Plan) (*crun, error) {
	cfg := cluster.Config{
		Seed:        p.Seed,
		Nodes:       int(p.P("nodes", 7)),
		ExtraKeys:   int(p.P("extra_keys", 0)),
		StartOffset: time.Duration(p.P("start_s", 3600)) * time.Second,
		OpPeriod:    time.Duration(p.P("op_period_s", 700)) * time.Second,
		EpochShift:  p.P("epoch_shift_s", 0),
		Net: cluster.NetConfig{
			DropRate:        float64(p.P("drop_ppm", 0)) / 1e6,
			DupRate:         float64(p.P("dup_ppm", 0)) / 1e6,
			ReorderRate:     float64(p.P("reorder_ppm", 0)) / 1e6,
			MinLatency:      time.Millisecond,
			MaxLatency:      time.Duration(p.P("maxlat_ms", 60)) * time.Millisecond,
			HoldOnPartition: p.P("hold_on_partition", 0) == 1,
		},
	}
	cfg.NoLoops = p.P("no_loops", 0) == 1
	cfg.StartCutRate = float64(p.P("startcut_ppm", 0)) / 1e6
	cfg.KeepTrace = os.Getenv("VERIF_TRACE") != ""
	cfg.LogStore = os.Getenv("VERIF_LOGSTORE") != ""
	c, err := cluster.New(cfg)
	if err != nil {
		return nil, err
	}
	if k := p.P("bootstop_k", 0); k > 0 {
		// the first start of one node is cut right before its k-th commit
		c.Nodes[int(p.P("bootstop_node", 0))%cfg.Nodes].StartCrashAt = int(k)
	}
	r := &crun{prop: prop, plan: p, c: c, out: harness.NewOutcome(), rng: core.NewRng(core.SplitMix64(p.Seed ^ 0xc1)),
		coins: map[int][]*cluster.Coin{}, txOf: map[int]*common.VersionedTransaction{}, conflicts: map[crypto.Hash]bool{}, lostQueue: map[int]bool{}, backedUp: map[int]bool{}, submittedTo: map[crypto.Hash]int{},
		extra: map[string]func(harness.Op, int){}}
	return r, nil
}

func (r *crun) node(i int) *cluster.SNode {
	n := int(r.plan.P("nodes", 7))
	return r.c.Nodes[((i%n)+n)%n]
}

func (r *crun) fault(kind string, until time.Duration) {
	r.out.Faults[kind]++
	if until > r.lastFault {
		r.lastFault = until
	}
}

// schedule installs every plan op on the event queue.
func (r *crun) schedule() {
	for idx, op := range r.plan.Ops {
		idx, op := idx, op
		at := time.Duration(op.At) * time.Microsecond
		r.c.Q.At(at, "op."+op.Kind, func() { r.apply(op, idx) })
	}
}

var assetTable = []cluster.AssetSpec{cluster.AssetBTC, cluster.AssetETH, cluster.AssetSOL, cluster.AssetXIN}

func (r *crun) apply(op harness.Op, idx int) {
	c := r.c
	switch op.Kind {
	case "deposit":
		asset := assetTable[int(op.A)%len(assetTable)]
		owners := []int{int(op.C) % 4}
		thr := uint8(1)
		if op.C%5 == 4 { // 2-of-3 output
			owners, thr = []int{0, 1, 2}, 2
		}
		amount := common.NewIntegerFromString(fmt.Sprintf("%d.%02d", 1+op.B%20, op.B%100))
		tx, coin := c.MakeDeposit(asset, amount, fmt.Sprintf("ext-%s", opLabel(op, idx)), uint64(op.B%3), owners, thr)
		r.coins[idx] = []*cluster.Coin{coin}
		r.txOf[idx] = tx
		r.submit(r.node(op.N), tx, true)
		// a client may hand the same transaction to several nodes at once: each may propose it, and the
		// same transaction can then be finalized by snapshots of more than one chain
		for k := int64(1); k <= op.D; k++ {
			if o := r.node(op.N + int(k)*2 + 1); o != r.node(op.N) && o.Alive {
				if _, err := c.Submit(o, tx); err == nil {
					r.out.Probes["submitted_to_several_nodes"]++
				}
			}
		}
	case "resubmit":
		// a client hands a transaction it already submitted to the same node again (it has seen no result
		// yet) and, right behind it, fresh ones: the repeated one may sit in a proposal that is still in
		// flight, and the fresh ones are batched behind it
		n := r.node(op.N)
		if !n.Alive {
			return
		}
		var again *common.VersionedTransaction
		for j := idx - 1; j >= 0 && again == nil; j-- {
			prev := r.plan.Ops[j]
			if prev.Kind == "deposit" && r.node(prev.N) == n && r.txOf[j] != nil && !c.FinalizedOn(n, r.txOf[j].PayloadHash()) {
				again = r.txOf[j]
			}
		}
		if again == nil {
			r.out.Probes["resubmit_nothing_pending"]++
			return
		}
		if _, err := c.Submit(n, again); err != nil {
			r.out.Probes["resubmit_rejected"]++
			return
		}
		r.out.Probes["resubmitted_while_pending"]++
		for k := int64(0); k < 1+op.B%3; k++ {
			tx, coin := c.MakeDeposit(assetTable[int(op.A+k)%len(assetTable)], common.NewIntegerFromString(fmt.Sprintf("%d.5", 1+(op.A+k)%9)), fmt.Sprintf("ext-%s-%d", opLabel(op, idx), k), 0, []int{int(k) % 4}, 1)
			if k == 0 {
				r.coins[idx] = []*cluster.Coin{coin}
				r.txOf[idx] = tx
			}
			r.submit(n, tx, true)
		}
	case "transfer":
		src := r.pickCoin(int(op.A))
		if src == nil {
			r.out.Probes["transfer_no_coin"]++
			return
		}
		src.Spent = true
		half := src.Amount.Div(2)
		outs := []cluster.OutSpec{{Owners: []int{int(op.C) % 4}, Threshold: 1, Amount: half}, {Owners: src.Owners, Threshold: src.Threshold, Amount: src.Amount.Sub(half)}}
		if half.Sign() == 0 {
			outs = []cluster.OutSpec{{Owners: src.Owners, Threshold: src.Threshold, Amount: src.Amount}}
		}
		tx, produced := c.MakeTransfer([]*cluster.Coin{src}, outs, nil, opLabel(op, idx))
		r.coins[idx] = produced
		r.txOf[idx] = tx
		r.submit(r.node(op.N), tx, true)
	case "doublespend":
		src := r.pickCoin(int(op.A))
		if src == nil {
			return
		}
		src.Spent = true
		t1, _ := c.MakeTransfer([]*cluster.Coin{src}, []cluster.OutSpec{{Owners: []int{1}, Threshold: 1, Amount: src.Amount}}, nil, opLabel(op, idx)+"a")
		t2, _ := c.MakeTransfer([]*cluster.Coin{src}, []cluster.OutSpec{{Owners: []int{2}, Threshold: 1, Amount: src.Amount}}, nil, opLabel(op, idx)+"b")
		r.conflicts[t1.PayloadHash()], r.conflicts[t2.PayloadHash()] = true, true
		r.submit(r.node(op.N), t1, false)
		r.submit(r.node(op.M), t2, false)
		r.out.Faults["client.doublespend"]++
	case "restartsubmit":
		// a node is restarted while it has nothing pending, and transactions are handed to it right after it
		// comes back, before it has heard from its peers (its own proposals are deferred for a while)
		n := r.node(op.N)
		if !n.Alive {
			return
		}
		c.Crash(n, false)
		r.fault("crash.step_boundary", c.Q.Now)
		c.Q.After(200*time.Millisecond, "restart", func() {
			if err := c.Restart(n); err != nil {
				c.Violate("C22", "restart-failed", err.Error(), n)
				return
			}
			for k := int64(0); k < 1+op.B%3; k++ {
				k := k
				c.Q.After(time.Duration(50+op.A%700+k*180)*time.Millisecond, "restartsubmit.deposit", func() {
					if !n.Alive {
						return
					}
					asset := assetTable[int(op.A+k)%len(assetTable)]
					amount := common.NewIntegerFromString(fmt.Sprintf("%d.%02d", 1+(op.A+k)%20, op.A%100))
					tx, coin := c.MakeDeposit(asset, amount, fmt.Sprintf("ext-rs-%s-%d", opLabel(op, idx), k), uint64(k), []int{int(op.C) % 4}, 1)
					r.coins[100000+idx*8+int(k)] = []*cluster.Coin{coin}
					r.submit(n, tx, true)
				})
			}
		})
	case "keyclash":
		// two honest-looking transfers of different coins to the same one-time output key (same recipient,
		// same seed): the first goes to a node that is cut off (it admits, proposes and locks it, but can
		// never finalize it), the second is finalized by the others; after the heal the cut-off node meets
		// the finalized snapshot of the second while still holding the key for the first
		a := r.pickCoin(int(op.A))
		var b *cluster.Coin
		for k := 1; k < 40 && a != nil && b == nil; k++ {
			if o := r.pickCoin(int(op.A) + k); o != nil && o != a && o.Asset == a.Asset && c.FinalizedEverywhere(o.Tx) {
				b = o
			}
		}
		if a == nil || b == nil || !c.FinalizedEverywhere(a.Tx) {
			r.out.Probes["keyclash_no_coins"]++
			return
		}
		a.Spent, b.Spent = true, true
		lone, other := r.node(op.N), r.node(op.M)
		if lone == other || !lone.Alive || !other.Alive {
			return
		}
		mk := func(coin *cluster.Coin) *common.VersionedTransaction {
			tx := common.NewTransactionV5(coin.Asset)
			tx.AddInput(coin.Tx, coin.Index)
			sh := crypto.Blake3Hash([]byte("KEYCLASH" + opLabel(op, idx)))
			tx.AddScriptOutput([]*common.Address{c.User(1)}, common.NewThresholdScript(1), coin.Amount, append(sh[:], sh[:]...))
			signed := &common.SignedTransaction{Transaction: *tx}
			k := int(coin.Threshold)
			if k == 0 {
				k = 1
			}
			var accounts []*common.Address
			for _, u := range coin.Owners[:k] {
				accounts = append(accounts, c.User(u))
			}
			if err := signed.SignUTXO(coin.UTXO, accounts); err != nil {
				return nil
			}
			return signed.AsVersioned()
		}
		t1, t2 := mk(a), mk(b)
		if t1 == nil || t2 == nil {
			return
		}
		n := int(r.plan.P("nodes", 7))
		for i := 0; i < n; i++ {
			if i != lone.Idx {
				c.Partition(lone.Idx, i, true)
			}
		}
		until := c.Q.Now + time.Duration(4000+op.B%4000)*time.Millisecond
		r.fault("net.isolate_node", until)
		r.out.Faults["client.output_key_reused_across_transactions"]++
		r.conflicts[t1.PayloadHash()], r.conflicts[t2.PayloadHash()] = true, true
		r.submit(lone, t1, false)
		c.Q.After(300*time.Millisecond, "keyclash.second", func() { r.submit(other, t2, false) })
		c.Q.At(until, "heal", func() {
			for i := 0; i < n; i++ {
				if i != lone.Idx {
					c.Partition(lone.Idx, i, false)
				}
			}
		})
	case "partition":
		a, b := r.node(op.N), r.node(op.M)
		if a == b {
			return
		}
		c.Partition(a.Idx, b.Idx, true)
		until := c.Q.Now + time.Duration(op.A)*time.Millisecond
		r.fault("net.partition_link", until)
		c.Q.At(until, "heal", func() { c.Partition(a.Idx, b.Idx, false) })
	case "isolate":
		a := r.node(op.N)
		n := int(r.plan.P("nodes", 7))
		for i := 0; i < n; i++ {
			if i != a.Idx {
				c.Partition(a.Idx, i, true)
			}
		}
		until := c.Q.Now + time.Duration(op.A)*time.Millisecond
		r.fault("net.isolate_node", until)
		c.Q.At(until, "heal", func() {
			for i := 0; i < n; i++ {
				if i != a.Idx {
					c.Partition(a.Idx, i, false)
				}
			}
		})
	case "split":
		// two groups: nodes with bit set in op.B against the rest
		n := int(r.plan.P("nodes", 7))
		var pairs [][2]int
		for i := 0; i < n; i++ {
			for j := i + 1; j < n; j++ {
				if (op.B>>uint(i))&1 != (op.B>>uint(j))&1 {
					pairs = append(pairs, [2]int{i, j})
					c.Partition(i, j, true)
				}
			}
		}
		until := c.Q.Now + time.Duration(op.A)*time.Millisecond
		r.fault("net.split", until)
		c.Q.At(until, "heal", func() {
			for _, pr := range pairs {
				c.Partition(pr[0], pr[1], false)
			}
		})
	case "crash":
		n := r.node(op.N)
		if !n.Alive {
			return
		}
		lose := op.B == 1
		c.Crash(n, lose)
		if lose {
			r.lostQueue[n.Idx] = true
		}
		until := c.Q.Now + time.Duration(op.A)*time.Millisecond
		r.fault("crash.step_boundary", until)
		if op.C > 0 {
			n.StartCrashAt = int(op.C) // and the restart itself is cut once, at its C-th commit
			r.fault("crash.restart_cut_armed", until+6*time.Second)
		}
		c.Q.At(until, "restart", func() {
			if err := c.Restart(n); err != nil {
				c.Violate("C22", "restart-failed", err.Error(), n)
			}
		})
	case "diskbackup":
		// the operator stops the node, copies its disk and starts it again
		n := r.node(op.N)
		if !n.Alive {
			return
		}
		c.Crash(n, false)
		if err := c.BackupDisk(n); err != nil {
			r.out.ToolError = err.Error()
			c.Halt = true
			return
		}
		r.backedUp[n.Idx] = true
		r.dropPendingOf(n)
		if err := c.Restart(n); err != nil {
			c.Violate("C22", "restart-failed", err.Error(), n)
		}
		r.fault("disk.backup_taken", c.Q.Now)
	case "diskrestore":
		// later the node is stopped and started from that older image: everything it wrote since is gone
		n := r.node(op.N)
		if !n.Alive || !r.backedUp[n.Idx] {
			return
		}
		c.Crash(n, false)
		if err := c.RestoreDisk(n); err != nil {
			r.out.ToolError = err.Error()
			c.Halt = true
			return
		}
		r.dropPendingOf(n)
		until := c.Q.Now + time.Duration(200+op.A%2000)*time.Millisecond
		r.fault("disk.restored_from_older_image", until)
		c.Q.At(until, "restart", func() {
			if err := c.Restart(n); err != nil {
				c.Violate("C22", "restart-failed", err.Error(), n)
			}
		})
	case "jumpall":
		// every clock moves forward together (idle time skipped)
		c.JumpTime(time.Duration(op.A) * time.Second)
		r.fault("clock.jump_all", c.Q.Now)
	case "failround":
		// the next round-transition write(s) of a node hit a failing disk
		n := r.node(op.N)
		if !n.Alive {
			return
		}
		name := "StartNewRound"
		if op.B == 1 {
			name = "UpdateEmptyHeadRound"
		}
		c.FailStoreCall(n, name, int(1+op.A%2))
		r.fault("storeerr.armed."+name, c.Q.Now+10*time.Second)
	case "crashcall":
		n := r.node(op.N)
		if !n.Alive {
			return
		}
		c.CrashAtStoreCall(n, int(op.A), op.B == 1)
		r.fault("crash.armed_in_store_call", c.Q.Now+10*time.Second)
	case "crashcommit":
		n := r.node(op.N)
		if !n.Alive {
			return
		}
		c.CrashAtCommit(n, int(op.A))
		r.fault("crash.armed_before_commit", c.Q.Now+10*time.Second)
	case "skew":
		n := r.node(op.N)
		n.Skew = time.Duration(op.A) * time.Millisecond
		r.fault("clock.skew", c.Q.Now)
	case "stall":
		n := r.node(op.N)
		n.StallUntil = c.Q.Now + time.Duration(op.A)*time.Millisecond
		r.fault("node.stall", n.StallUntil)
	default:
		if f, ok := r.extra[op.Kind]; ok {
			f(op, idx)
		}
	}
}

func opLabel(op harness.Op, idx int) string {
	if op.S != "" {
		return op.S
	}
	return fmt.Sprint("i", idx)
}

func (r *crun) pickCoin(sel int) *cluster.Coin {
	var cands []*cluster.Coin
	keys := make([]int, 0, len(r.coins))
	for k := range r.coins {
		keys = append(keys, k)
	}
	sort.Ints(keys)
	for _, k := range keys {
		for _, coin := range r.coins[k] {
			if !coin.Spent && len(coin.Owners) > 0 {
				cands = append(cands, coin)
			}
		}
	}
	if len(cands) == 0 {
		return nil
	}
	return cands[sel%len(cands)]
}

func (r *crun) submit(n *cluster.SNode, tx *common.VersionedTransaction, expectLive bool) {
	if !n.Alive {
		r.out.Probes["submit_node_down"]++
		return
	}
	_, err := r.c.Submit(n, tx)
	if err != nil {
		r.out.Probes["submit_rejected"]++
		r.c.Trace.Logf(r.c.Q.Now, "submit n%d %s rejected", n.Idx, tx.PayloadHash().String()[:8])
		return
	}
	r.out.Probes["submit_ok"]++
	r.c.Trace.Logf(r.c.Q.Now, "submit n%d %s ok", n.Idx, tx.PayloadHash().String()[:8])
	if expectLive && !r.lostQueue[n.Idx] {
		r.accepted = append(r.accepted, tx.PayloadHash())
		r.submittedTo[tx.PayloadHash()] = n.Idx
	}
}

// dropPendingOf forgets the accepted submissions that were handed to node n and
// are not finalized everywhere yet: a stop (and all the more a restore from an
// older image) legitimately loses the node's queue, the client would retry.
func (r *crun) dropPendingOf(n *cluster.SNode) {
	var keep []crypto.Hash
	for _, h := range r.accepted {
		if r.submittedTo[h] == n.Idx && !r.c.FinalizedEverywhere(h) {
			r.out.Probes["accepted_submission_forgotten_with_the_node_queue"]++
			continue
		}
		keep = append(keep, h)
	}
	r.accepted = keep
}

// settle ends fault injection (heal, restart everything, remove skews and
// stalls) and runs the bounded liveness window. It returns how many accepted
// submissions are finalized on every node.
func (r *crun) settle(budget time.Duration, resubmit bool) (finalized, total int) {
	c := r.c
	c.HealAll()
	c.DisarmCrashes()
	n := int(r.plan.P("nodes", 7))
	c.Cfg.Net.DropRate, c.Cfg.Net.DupRate, c.Cfg.Net.ReorderRate = 0, 0, 0
	for i := 0; i < len(c.Nodes); i++ {
		nd := c.Nodes[i]
		nd.Skew, nd.StallUntil = 0, 0
		if !nd.Alive && (i < n || nd.Restarts > 0 || nd.WriteOrdinal > 0) {
			if err := c.Restart(nd); err != nil {
				c.Violate("C22", "restart-failed", err.Error(), nd)
				return 0, len(r.accepted)
			}
		}
	}
	if resubmit {
		// a crash may drop admitted-but-unproposed transactions (the cache
		// queue entry is consumed before forwarding); clients retry, as the
		// RPC user would
		for i, h := range r.accepted {
			if c.FinalizedEverywhere(h) {
				continue
			}
			for _, tx := range r.txOf {
				if tx.PayloadHash() == h {
					nd := c.Nodes[i%n]
					if nd.Alive {
						c.Submit(nd, tx)
						r.out.Probes["client_retry"]++
					}
					break
				}
			}
		}
	}
	deadline := c.Q.Now + budget
	for c.Q.Now < deadline && !c.Halt {
		c.Run(c.Q.Now + 2*time.Second)
		if r.allFinal() && (r.settled == nil || r.settled()) {
			break
		}
	}
	for _, h := range r.accepted {
		if c.FinalizedEverywhere(h) {
			finalized++
		}
	}
	return finalized, len(r.accepted)
}

// missing describes which accepted submissions are not final where.
func (r *crun) missing() []string {
	var out []string
	for _, h := range r.accepted {
		var where []int
		for i := 0; i < int(r.plan.P("nodes", 7)); i++ {
			if !r.c.FinalizedOn(r.c.Nodes[i], h) {
				where = append(where, i)
			}
		}
		if len(where) > 0 {
			out = append(out, fmt.Sprintf("%s missing on %v", h.String()[:8], where))
		}
	}
	for i := 0; i < int(r.plan.P("nodes", 7)); i++ {
		n := r.c.Nodes[i]
		if !n.Alive {
			out = append(out, fmt.Sprintf("n%d dead", i))
			continue
		}
		line := fmt.Sprintf("n%d:", i)
		for _, id := range n.Node.SimChainIDs() {
			ch := n.Node.SimChain(id)
			if ch.State == nil {
				continue
			}
			p := ch.SimPools()
			line += fmt.Sprintf(" %s=r%d/%d[c%d f%d u%d a%d]", id.String()[:4], ch.State.CacheRound.Number, len(ch.State.CacheRound.Snapshots), p.CachePool, p.FinalRing, p.FinalUnmet, p.Aggregators)
		}
		out = append(out, line)
	}
	return out
}

func (r *crun) allFinal() bool {
	for _, h := range r.accepted {
		if !r.c.FinalizedEverywhere(h) {
			return false
		}
	}
	return true
}

// finish copies cluster statistics into the outcome.
func (r *crun) finish(nontrivial bool, sample any) *harness.Outcome {
	c := r.c
	for k, v := range c.Stats {
		if strings.HasPrefix(k, "net.") || strings.HasPrefix(k, "crash") || strings.HasPrefix(k, "inject") || strings.HasPrefix(k, "storeerr") {
			r.out.Faults[k] += v
		} else {
			r.out.Probes["sim."+k] += v
		}
	}
	r.out.Probes["sim.steps"] += c.Steps
	r.out.Probes["sim.delivered"] += c.MsgDelivered
	r.out.SimSeconds = c.Q.Now.Seconds()
	r.out.Digest = c.Trace.Digest()
	if f := os.Getenv("VERIF_TRACE"); f != "" {
		os.WriteFile(f, []byte(strings.Join(c.Trace.Full, "\n")+"\n"), 0644)
	}
	r.out.NonTrivial = nontrivial
	r.out.Sample = sample
	if v := c.Violation; v != nil {
		r.out.Violation = &harness.Violation{Property: v.Property, Signature: v.Signature, Detail: v.Detail}
		r.out.LogTail = c.Trace.Tail()
	}
	return r.out
}

// honestWorkload appends deposits and transfers spread over [from, to].
func honestWorkload(rng *core.Rng, p *harness.Plan, from, to time.Duration, deposits, transfers int) {
	span := int64((to - from) / time.Microsecond)
	for i := 0; i < deposits; i++ {
		p.Ops = append(p.Ops, harness.Op{At: int64(from/time.Microsecond) + rng.Int64N(span/2+1), Kind: "deposit", S: fmt.Sprint("d", i), N: rng.IntN(9), A: int64(rng.IntN(4)), B: int64(rng.IntN(2000)), C: int64(rng.IntN(20)), D: int64(rng.IntN(4) / 2 * (1 + rng.IntN(2)))})
	}
	for i := 0; i < transfers; i++ {
		p.Ops = append(p.Ops, harness.Op{At: int64(from/time.Microsecond) + span/3 + rng.Int64N(2*span/3+1), Kind: "transfer", S: fmt.Sprint("t", i), N: rng.IntN(9), A: int64(rng.IntN(1000)), C: int64(rng.IntN(20))})
	}
}

// networkFaults appends partitions/isolations/splits inside [from, to].
func networkFaults(rng *core.Rng, p *harness.Plan, from, to time.Duration, count int) {
	span := int64((to - from) / time.Microsecond)
	for i := 0; i < count; i++ {
		at := int64(from/time.Microsecond) + rng.Int64N(span+1)
		switch rng.IntN(3) {
		case 0:
			p.Ops = append(p.Ops, harness.Op{At: at, Kind: "partition", N: rng.IntN(9), M: rng.IntN(9), A: int64(500 + rng.IntN(15000))})
		case 1:
			p.Ops = append(p.Ops, harness.Op{At: at, Kind: "isolate", N: rng.IntN(9), A: int64(500 + rng.IntN(10000))})
		default:
			p.Ops = append(p.Ops, harness.Op{At: at, Kind: "split", B: int64(rng.IntN(510)), A: int64(500 + rng.IntN(8000))})
		}
	}
}

func sortOps(p *harness.Plan) {
	sort.SliceStable(p.Ops, func(i, j int) bool { return p.Ops[i].At < p.Ops[j].At })
}
