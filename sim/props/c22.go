package props

import (
	"fmt"
	"time"

	"verifsim/cluster"
	"verifsim/core"
	"verifsim/harness"
)

// C22 — restart after a crash at any write boundary yields a consistent
// ledger.
//
// R1: multi-chain workload of deposits and transfers on 7-9 real nodes;
// crash faults cut a node's durable write sequence before or after an
// arbitrary Store call (armed k calls ahead), or at a step boundary with the
// un-synced cache DB lost; network faults run concurrently. Oracle after
// every restart: SetupNode succeeds without panic, the start-up graph
// validator (all rounds) reports no invalid entry, a full scan finds every
// finalization with its body, snapshot and outputs and the topology index a
// bijection; after faults stop the node converges with the others.

type c22Mon struct {
	cluster.BaseMonitor
	r        *crun
	restarts int
}

func (m *c22Mon) OnRestart(n *cluster.SNode) {
	c := m.r.c
	m.restarts++
	total, invalid, err := n.Store.ValidateGraphEntries(c.NetworkId, 1<<40)
	m.r.out.Evals++
	if err != nil {
		c.Violate("C22", "validator-error", fmt.Sprintf("ValidateGraphEntries after restart: %v", err), n)
		return
	}
	if invalid > 0 {
		c.Violate("C22", "validator-invalid-entries", fmt.Sprintf("graph validator reports %d/%d invalid entries after restart", invalid, total), n)
		return
	}
	checked, problem := scanLedger(n.Store)
	m.r.out.Evals += checked
	if problem != "" {
		c.Violate("C22", "scan:"+scanClass(problem), problem, n)
	}
}

func scanClass(problem string) string {
	for _, k := range []string{"no stored body", "lacks output", "not stored", "two topology positions", "no reverse index", "missing snapshot", "missing position", "without finalization", "topology positions"} {
		if containsStr(problem, k) {
			return k
		}
	}
	return "other"
}

func containsStr(s, sub string) bool {
	for i := 0; i+len(sub) <= len(s); i++ {
		if s[i:i+len(sub)] == sub {
			return true
		}
	}
	return false
}

func c22Gen(rng *core.Rng, tier string) *harness.Plan {
	p := &harness.Plan{Seed: rng.Uint64(), Params: map[string]int64{}}
	if rng.Chance(0.3) {
		c22MemGen(rng, tier, p) // consensus operations on the membership rig, see c22mem.go
		return p
	}
	baseClusterParams(rng, p)
	dur := 30 * time.Second
	if tier == "thorough" {
		dur = time.Duration(40+rng.IntN(80)) * time.Second
	}
	p.Params["dur_ms"] = int64(dur / time.Millisecond)
	if rng.Chance(0.4) {
		// stops during start-up: the first start (genesis load) of one node and/or the restarts after stops
		if rng.Chance(0.5) {
			p.Params["nodes"] = int64(8 + rng.IntN(2))
			p.Params["bootstop_k"] = int64(1 + rng.IntN(3))
			p.Params["bootstop_node"] = int64(rng.IntN(9))
		}
		p.Params["startcut_ppm"] = int64(rng.IntN(700000))
	}
	honestWorkload(rng, p, 2*time.Second, dur, 6+rng.IntN(10), 3+rng.IntN(8))
	crashes := 2 + rng.IntN(5)
	for i := 0; i < crashes; i++ {
		at := int64((3*time.Second + rng.Dur(0, dur-4*time.Second)) / time.Microsecond)
		if rng.Chance(0.4) {
			// between two Badger commits, whichever Store call issues them (commit granularity)
			p.Ops = append(p.Ops, harness.Op{At: at, Kind: "crashcommit", N: rng.IntN(9), A: int64(1 + rng.IntN(40))})
		} else if rng.Chance(0.6) {
			before := int64(0)
			if rng.Chance(0.5) {
				before = 1
			}
			p.Ops = append(p.Ops, harness.Op{At: at, Kind: "crashcall", N: rng.IntN(9), A: int64(1 + rng.IntN(25)), B: before})
		} else {
			lose := int64(0)
			if rng.Chance(0.4) {
				lose = 1
			}
			p.Ops = append(p.Ops, harness.Op{At: at, Kind: "crash", N: rng.IntN(9), A: int64(300 + rng.IntN(6000)), B: lose})
		}
	}
	if rng.Chance(0.5) {
		networkFaults(rng, p, 2*time.Second, dur, 1+rng.IntN(3))
	}
	sortOps(p)
	return p
}

func c22Exec(p *harness.Plan) *harness.Outcome {
	if p.P("mem", 0) == 1 {
		return c22MemExec(p)
	}
	r, err := newClusterRun("C22", p)
	if err != nil {
		o := harness.NewOutcome()
		o.ToolError = err.Error()
		return o
	}
	defer r.c.Close()
	mon := &c22Mon{r: r}
	r.c.AddMonitor(mon)
	if err := r.c.Boot(); err != nil {
		r.out.ToolError = err.Error()
		return r.out
	}
	r.schedule()
	r.c.Run(time.Duration(p.P("dur_ms", 30000)) * time.Millisecond)
	fin, total := 0, 0
	if !r.c.Halt {
		fin, total = r.settle(90*time.Second, true)
	}
	r.out.Probes["restarts_checked"] += mon.restarts
	r.out.Probes["accepted_finalized"] += fin
	r.out.Probes["accepted_total"] += total
	var missing []string
	if !r.c.Halt && fin < total {
		r.out.Probes["not_converged_runs"]++
		missing = r.missing()
	}
	relabelPanic(r, "C22")
	return r.finish(mon.restarts > 0 && fin > 0, map[string]any{"restarts": mon.restarts, "finalized": fin, "accepted": total, "sim_s": r.c.Q.Now.Seconds(), "missing": missing})
}

// relabelPanic attributes an unexpected kernel panic to the property whose
// run provoked it, keeping the panic site in the signature.
func relabelPanic(r *crun, prop string) {
	if v := r.c.Violation; v != nil && (v.Property == "PANIC" || (v.Property == "C22" && v.Signature == "restart-failed")) {
		v.Property = prop
	}
}

func init() {
	harness.Register(&harness.Property{
		ID:    "C22",
		Level: "fault_enumeration",
		Rule: "seeded cluster runs (7-9 real nodes, deposits+transfers, swarm network faults) in which 2-6 crashes per run cut a node before/after its k-th upcoming mutating Store call (k in 1..25, covers WriteTransaction, Lock*, StartNewRound, UpdateEmptyHeadRound, WriteSnapshot, WriteConsensusSnapshot, cache writes, work/space writes) or at a step boundary with cache-DB loss; each restart is checked by the graph validator over all rounds and a full ledger scan; " +
			"40% of the in-call crashes stop right before the k-th upcoming Badger commit (k in 1..40) instead of at a call boundary; 30% of the runs are membership-rig histories (pledge, acceptance, removal, custodian update, mint) with a node armed to stop before its k-th commit (k in 1..14) right before each operation; " +
			"non-trivial = at least one checked restart and one transaction finalized everywhere afterwards; distinct = canonical-log digests. Sampled, not exhaustive, per history.",
		Components: clusterComponents,
		Assume:     clusterAssume,
		Gen:        c22Gen,
		Exec:       c22Exec,
		QuickRuns:  96, ThoroughRuns: 4000,
		QuickWall: 45 * time.Second, ThoroughWall: 12 * time.Minute,
	})
}
