#!/bin/bash
# usage: seedrun.sh <prop> <diff-file> [tier] [extra props...]
# Checks a seeded change WITHOUT touching /repo: a scratch worktree of /repo's HEAD is created under
# /tmp, the diff applied there, and ./check is pointed at it (VERIF_REPO) with its output redirected
# (VERIF_OUT), so several of these can run side by side. The worktree is removed afterwards.
# prints: RESULT <prop> <diff> caught|missed|toolerror + signatures
prop=$1; diff=$(readlink -f "$2"); tier=${3:-quick}
wt=$(mktemp -d /tmp/seedrun.XXXXXX); out="$wt.out"
git -C /repo worktree add --detach -q "$wt" HEAD || { echo "RESULT $prop $diff worktree-failed"; exit 2; }
cleanup() { git -C /repo worktree remove --force "$wt" 2>/dev/null; rm -rf "$wt" "$out"; git -C /repo worktree prune; }
trap cleanup EXIT
if ! git -C "$wt" apply "$diff" 2>/dev/null; then echo "RESULT $prop $diff does-not-apply"; exit 2; fi
here=$(cd "$(dirname "$0")" && pwd)
log=$(VERIF_REPO="$wt" VERIF_OUT="$out" "$here/check" "$prop" --tier "$tier" 2>&1); rc=$?
sigs=$(for f in "$out"/replays/${prop}-*.json; do [ -f "$f" ] && jq -r .violation.signature "$f"; done | sort | uniq -c | tr '\n' ';')
label=$(echo "$diff" | sed 's#.*/seeded/##')
case $rc in
 1) echo "RESULT $prop $label caught tier=$tier sigs: $sigs";;
 0) echo "RESULT $prop $label missed tier=$tier :: $(echo "$log" | grep -E "$tier:" | tail -1)";;
 *) echo "RESULT $prop $label toolerror rc=$rc :: $(echo "$log" | grep -iE "error|fail" | head -3)";;
esac
if [ -n "${KEEP_REPLAY:-}" ] && [ $rc -eq 1 ]; then mkdir -p "$KEEP_REPLAY"; cp "$out"/replays/${prop}-*.json "$KEEP_REPLAY"/ 2>/dev/null; fi
exit 0
