package props

import (
	"fmt"
	"time"

	"verifsim/core"
	"verifsim/harness"
	"verifsim/storerig"

	"github.com/MixinNetwork/mixin/common"
	"github.com/MixinNetwork/mixin/crypto"
)

// C03 — an output, deposit or mint slot is locked by at most one transaction.
//
// R3: several simulated clients issue admission-path and finalization-path
// (fork) lock requests, body writes, finalizations and reads over small,
// overlapping slot and transaction sets; every call is one Store call and the
// interleaving of the clients is the order of the plan (a PRNG choice).
// Deposits differ only in chain, external transaction id or output index.
// Oracle: holder-per-slot model with finalized set written from the property
// text; after every operation every slot holder and every transaction body /
// finalization record is read back and compared (so a failed multi-slot lock
// must leave everything untouched, and a takeover must remove the displaced
// body in the same post-state).

type c03Slot struct {
	kind    string // utxo | deposit | mint
	in      *common.Input
	deposit *common.DepositData
	mint    *common.MintData
	holder  int // tx index or -1
}

type c03Tx struct {
	ver       *common.VersionedTransaction
	hash      crypto.Hash
	slots     []int
	body      bool
	finalized bool
}

func c03Gen(rng *core.Rng, tier string) *harness.Plan {
	p := &harness.Plan{Seed: rng.Uint64(), Params: map[string]int64{}}
	if rng.Chance(0.4) {
		// concurrent mode (rig R3c): rounds of overlapping store calls, see c03conc.go
		p.Params["conc"] = 1
		p.Params["rounds"] = int64(6 + rng.IntN(10))
		if tier == "thorough" {
			p.Params["rounds"] = int64(10 + rng.IntN(40))
		}
	}
	p.Params["utxos"] = int64(2 + rng.IntN(4))
	p.Params["spends"] = int64(3 + rng.IntN(6))
	n := 20 + rng.IntN(80)
	if tier == "thorough" {
		n = 60 + rng.IntN(300)
	}
	w := []int{5 + rng.IntN(5), 2 + rng.IntN(5), 2 + rng.IntN(4), 1 + rng.IntN(3), rng.IntN(2), rng.IntN(3)}
	kinds := []string{"lock", "forklock", "write", "finalize", "restart", "refinalize"}
	hot := []int64{int64(rng.IntN(1000)), int64(rng.IntN(1000)), int64(rng.IntN(1000)), int64(rng.IntN(1000)), int64(rng.IntN(1000))}
	for i := 0; i < n; i++ {
		op := harness.Op{Kind: kinds[weighted(rng, w)], N: rng.IntN(4), A: int64(rng.IntN(1000)), M: rng.IntN(7)}
		if rng.Chance(0.75) {
			op.A = hot[rng.IntN(len(hot))] // concentrate on a few transactions so lock/write/finalize chains form
		}
		p.Ops = append(p.Ops, op)
	}
	return p
}

// c03Setup builds the slot and transaction universe of a run.
func c03Setup(c *rctx, f *storerig.Fix, p *harness.Plan, rng *core.Rng) (slots []*c03Slot, txs []*c03Tx, ts uint64, fail *harness.Outcome) {
	ts = f.BaseTime()

	// utxo slots: finalized deposits owned by user 0
	nU := int(p.P("utxos", 3))
	var bases []*common.VersionedTransaction
	for i := 0; i < nU; i++ {
		d := f.MakeDeposit(common.BitcoinAssetId, common.BitcoinAssetId, "c6d0c728", common.NewInteger(10), fmt.Sprintf("c03-base-%d", i), 0, 0)
		if err := f.Admit(d, false); err != nil {
			return nil, nil, 0, c.tool(err)
		}
		ts += uint64(time.Millisecond)
		if _, err := f.Finalize(i%7, ts, []*common.VersionedTransaction{d}, nil); err != nil {
			return nil, nil, 0, c.tool(err)
		}
		bases = append(bases, d)
		slots = append(slots, &c03Slot{kind: "utxo", in: &common.Input{Hash: d.PayloadHash(), Index: 0}, holder: -1})
	}
	// spends over 1-2 utxo slots each
	for j := 0; j < int(p.P("spends", 4)); j++ {
		a := rng.IntN(nU)
		sl := []int{a}
		if nU > 1 && rng.Chance(0.5) {
			b := rng.IntN(nU)
			if b != a {
				sl = append(sl, b)
			}
		}
		var ins []*common.UTXO
		total := common.NewInteger(0)
		for _, s := range sl {
			ins = append(ins, storerig.UTXOOf(bases[s], 0))
			total = total.Add(common.NewInteger(10))
		}
		ver := f.MakeSpend(common.BitcoinAssetId, ins, 0, []common.Integer{total}, []int{1 + j}, fmt.Sprintf("c03-%d", j))
		txs = append(txs, &c03Tx{ver: ver, hash: ver.PayloadHash(), slots: sl})
	}
	// deposit slots differing only in chain / transaction id / index
	depSpecs := []struct {
		chain crypto.Hash
		tx    string
		idx   uint64
	}{
		{common.BitcoinAssetId, "t1", 0}, {common.BitcoinAssetId, "t1", 1}, {common.BitcoinAssetId, "t2", 0},
		{common.EthereumAssetId, "t1", 0}, {common.BitcoinAssetId, "t1:0", 1}, {common.BitcoinAssetId, "t1", 10},
	}
	for di, ds := range depSpecs {
		si := len(slots)
		asset, key := common.BitcoinAssetId, "c6d0c728"
		if ds.chain == common.EthereumAssetId {
			asset, key = common.EthereumAssetId, "0x0000000000000000000000000000000000000000"
		}
		slots = append(slots, &c03Slot{kind: "deposit", holder: -1,
			deposit: &common.DepositData{Chain: ds.chain, AssetKey: key, Transaction: ds.tx, Index: ds.idx, Amount: common.NewInteger(uint64(1 + di))}})
		for v := 0; v < 2; v++ {
			ver := f.MakeDeposit(asset, ds.chain, key, common.NewInteger(uint64(1+di)), ds.tx, ds.idx, 20+v)
			txs = append(txs, &c03Tx{ver: ver, hash: ver.PayloadHash(), slots: []int{si}})
		}
	}
	// mint slots
	for b := uint64(2000); b < 2002; b++ {
		si := len(slots)
		slots = append(slots, &c03Slot{kind: "mint", holder: -1, mint: &common.MintData{Group: "UNIVERSAL", Batch: b}})
		for v := 0; v < 3; v++ {
			tx := common.NewTransactionV5(common.XINAssetId)
			amount := common.NewInteger(5)
			if v == 2 {
				amount = common.NewInteger(6)
			}
			tx.AddUniversalMintInput(b, amount)
			sh := crypto.Blake3Hash([]byte(fmt.Sprintf("c03mint%d-%d", b, v)))
			tx.AddScriptOutput([]*common.Address{f.User(30 + v)}, common.NewThresholdScript(1), amount, append(sh[:], sh[:]...))
			ver := tx.AsVersioned()
			txs = append(txs, &c03Tx{ver: ver, hash: ver.PayloadHash(), slots: []int{si}})
		}
	}

	return slots, txs, ts, nil
}

func c03Exec(p *harness.Plan) *harness.Outcome {
	c := newCtx("C03")
	f, err := storerig.NewFix(7)
	if err != nil {
		return c.tool(err)
	}
	defer f.Close()
	rng := core.NewRng(p.Seed)
	slots, txs, ts, fail := c03Setup(c, f, p, rng)
	if fail != nil {
		return fail
	}
	if p.P("conc", 0) == 1 {
		return c03Conc(c, f, p, rng, slots, txs, ts)
	}
	readHolder := func(s *c03Slot) (crypto.Hash, error) {
		switch s.kind {
		case "utxo":
			u, err := f.Store.ReadUTXOLock(s.in.Hash, s.in.Index)
			if err != nil || u == nil {
				return crypto.Hash{}, fmt.Errorf("utxo unreadable: %v", err)
			}
			return u.LockHash, nil
		case "deposit":
			return f.Store.ReadDepositLock(s.deposit)
		default:
			kvs, err := f.Store.SimDumpGraph("MINTUNIVERSAL", true)
			if err != nil {
				return crypto.Hash{}, err
			}
			for _, kv := range kvs {
				d, err := common.UnmarshalMintDistribution(kv.Value)
				if err != nil {
					return crypto.Hash{}, err
				}
				if d.Batch == s.mint.Batch {
					return d.Transaction, nil
				}
			}
			return crypto.Hash{}, nil
		}
	}
	verify := func(i int) *harness.Outcome {
		for si, s := range slots {
			h, err := readHolder(s)
			if err != nil {
				return c.viol("read-error", "op %d: %v", i, err)
			}
			c.out.Evals++
			want := crypto.Hash{}
			if s.holder >= 0 {
				want = txs[s.holder].hash
			}
			if h != want {
				return c.viol("holder-mismatch:"+s.kind, "op %d: %s slot %d is held by %s, model says %s", i, s.kind, si, h.String()[:8], want.String()[:8])
			}
		}
		for ti, t := range txs {
			body, fin, err := f.Store.ReadTransaction(t.hash)
			if err != nil {
				return c.viol("read-error", "op %d: %v", i, err)
			}
			if (body != nil) != t.body {
				return c.viol("body-mismatch", "op %d: transaction %d body present=%v, model %v", i, ti, body != nil, t.body)
			}
			if (fin != "") != t.finalized {
				return c.viol("finalization-mismatch", "op %d: transaction %d finalized=%v, model %v", i, ti, fin != "", t.finalized)
			}
		}
		return nil
	}

	locksOK, locksRefused, takeovers, refusedFinal, refinal := 0, 0, 0, 0, 0
	usedNode := map[int]map[int]bool{}
	for i, op := range p.Ops {
		ti := int(op.A) % len(txs)
		t := txs[ti]
		switch op.Kind {
		case "lock", "forklock":
			fork := op.Kind == "forklock"
			// model decision
			ok := true
			var displaced []int
			for _, si := range t.slots {
				h := slots[si].holder
				if h >= 0 && h != ti {
					if !fork || txs[h].finalized {
						ok = false
						if fork {
							refusedFinal++
						}
						break
					}
					displaced = append(displaced, h)
				}
			}
			var lerr error
			if g := c.guard("lock-panic", func() { lerr = t.ver.LockInputs(f.Store, fork) }); g != nil {
				return g
			}
			c.logf("c%d %s tx%d slots=%v -> err=%v (model ok=%v)", op.N, op.Kind, ti, t.slots, lerr != nil, ok)
			if lerr == nil && !ok {
				return c.viol("lock-granted-on-held-slot", "op %d: %s of transaction %d succeeded although a slot is held by another transaction (fork=%v)", i, op.Kind, ti, fork)
			}
			if lerr != nil && ok {
				return c.viol("lock-refused", "op %d: %s of transaction %d over free or own slots failed: %v", i, op.Kind, ti, lerr)
			}
			if ok {
				locksOK++
				for _, d := range displaced {
					txs[d].body = false
					takeovers++
				}
				for _, si := range t.slots {
					slots[si].holder = ti
				}
			} else {
				locksRefused++
			}
		case "write":
			mine := true
			for _, si := range t.slots {
				if slots[si].holder != ti {
					mine = false
				}
			}
			if !mine {
				continue // admission never writes a body without holding all its slots
			}
			if t.ver.DepositData() != nil && t.ver.Asset == common.EthereumAssetId {
				// asset info of an unknown asset is checked at body write; fine either way
			}
			var werr error
			if g := c.guard("write-panic", func() { werr = f.Store.WriteTransaction(t.ver) }); g != nil {
				return g
			}
			c.logf("c%d write tx%d err=%v", op.N, ti, werr != nil)
			if werr != nil {
				return c.viol("write-error", "op %d: %v", i, werr)
			}
			t.body = true
		case "finalize":
			mine := true
			for _, si := range t.slots {
				if slots[si].holder != ti {
					mine = false
				}
			}
			if !mine || !t.body || t.finalized {
				continue
			}
			ts += uint64(time.Millisecond)
			var ferr error
			if g := c.guard("finalize-panic", func() {
				_, ferr = f.Finalize(op.M%7, ts, []*common.VersionedTransaction{t.ver}, nil)
			}); g != nil {
				return g
			}
			c.logf("c%d finalize tx%d err=%v", op.N, ti, ferr != nil)
			if ferr != nil {
				return c.viol("finalize-error", "op %d: %v", i, ferr)
			}
			t.finalized = true
			c.out.Probes["finalized"]++
		case "refinalize":
			// the transaction that created a slot arrives a second time, in a snapshot of ANOTHER node, stamped
			// before or after the snapshot that finalized it here (a batchable transaction is handed to several
			// snapshot nodes; their snapshots arrive in any order): nothing may change
			var us []int
			for si, sl := range slots {
				if sl.kind == "utxo" {
					us = append(us, si)
				}
			}
			if len(us) == 0 {
				continue
			}
			si := us[int(op.A)%len(us)]
			base, _, err := f.Store.ReadTransaction(slots[si].in.Hash)
			if err != nil || base == nil {
				return c.viol("read-error", "op %d: creating transaction of slot %d unreadable: %v", i, si, err)
			}
			// a node includes a transaction at most once (the kernel's per-node uniqueness record)
			if usedNode[si] == nil {
				usedNode[si] = map[int]bool{si % 7: true} // c03Setup finalized it on chain si%7
			}
			node := -1
			for k := 0; k < 7; k++ {
				if cand := (si + 1 + op.M%6 + k) % 7; !usedNode[si][cand] {
					node = cand
					break
				}
			}
			if node < 0 {
				continue
			}
			usedNode[si][node] = true
			refinal++
			when := f.BaseTime() - uint64(refinal)*uint64(time.Millisecond)
			if op.N%3 == 0 {
				ts += uint64(time.Millisecond)
				when = ts
			}
			var ferr error
			if g := c.guard("finalize-panic", func() {
				_, ferr = f.Finalize(node, when, []*common.VersionedTransaction{base}, nil)
			}); g != nil {
				return g
			}
			c.logf("c%d refinalize creator of slot %d earlier=%v err=%v", op.N, si, when < ts, ferr != nil)
			if ferr != nil {
				return c.viol("finalize-error", "op %d: second snapshot with an already finalized transaction refused: %v", i, ferr)
			}
			c.out.Probes["finalized_again_in_another_snapshot"]++
		case "restart":
			if err := f.Reopen(false); err != nil {
				return c.tool(err)
			}
			c.out.Faults["restart"]++
			c.logf("restart")
		}
		if r := verify(i); r != nil {
			return r
		}
	}
	c.out.Probes["locks_granted"] += locksOK
	c.out.Probes["locks_refused"] += locksRefused
	c.out.Probes["takeovers"] += takeovers
	c.out.Probes["fork_refused_by_finalized"] += refusedFinal
	return c.done(locksOK > 0 && locksRefused > 0, map[string]any{"slots": len(slots), "txs": len(txs), "granted": locksOK, "refused": locksRefused, "takeovers": takeovers})
}

func init() {
	harness.Register(&harness.Property{
		ID:    "C03",
		Level: "exploration",
		Rule: "seeded interleavings (4 clients, call granularity) of ordinary and fork lock requests, body writes, finalizations, second finalizations of a slot's creating transaction through a snapshot of another node (stamped before or after the first) and restarts over 2-5 output slots with 3-8 overlapping 1-2-input spends, 6 deposit identifiers differing only in chain/txid/index with 2 competing transactions each, and 2 mint batches with 3 competing transactions each; whole model re-read after every operation; " +
			"Concurrent part (40% of the runs): 6-15 (thorough 10-49) rounds of 2-4 overlapping admissions (lock, then body write), finalization-path takeovers and lock reads over a contested slot, interleaved at store mutex acquisitions and Badger transaction begin/commit by a seeded scheduler (one task runs at a time); each round must be linearizable against the holder model (exhaustive search over the orders that respect real-time precedence) and leave the state that order produces; " +
			"non-trivial = at least one lock granted and one refused; distinct = canonical-log digests. The cluster double-spend monitor (evidence of C01/C17 runs) adds the cross-node part.",
		Components: r3Components,
		Assume:     []string{"A1 Badger commit atomic and durable at return", "A3 (overlap finer than one Store call equals a serial order or ErrConflict) is assumed by the sequential part only; the concurrent part tests it at store-mutex / Badger-transaction granularity, not inside Badger"},
		Gen:        c03Gen,
		Exec:       c03Exec,
		QuickRuns:  300, ThoroughRuns: 6000,
		QuickWall: 40 * time.Second, ThoroughWall: 8 * time.Minute,
	})
}
