package props

import (
	"fmt"
	"runtime/debug"
	"strings"

	"verifsim/core"

	"github.com/MixinNetwork/mixin/storage"
)

// R3c — concurrent store rig.
//
// Several client tasks call the real BadgerStore at the same time. The tasks
// are real goroutines, but exactly one runs at any instant: every task parks at
// the storage instrumentation seam (every acquisition of the store mutex and
// every Badger transaction begin / commit, inserted at build time by
// cmd/instrument into whatever code the tree under test contains), and the
// simulator releases one task per decision, each decision drawn from the run
// PRNG. A schedule is therefore a list of integers and replays exactly.
// Waiting for the store mutex is cooperative and provides no exclusion itself.
//
// The recorded history (invoke / return stamped with the global decision
// counter) is checked for linearizability against a small sequential model by
// searching the orders that respect real-time precedence; the number of
// concurrent operations per round is kept at 2-4 so the search is exhaustive.

type concOp struct {
	name      string
	fn        func() error
	err       error
	panicked  string
	call, ret int64
	skipped   bool // not executed because an earlier operation of its task failed
	data      any  // operation arguments / observed result for the model
}

// conflict reports whether the operation failed with Badger's optimistic
// concurrency error, which callers treat as "nothing happened, retry".
func (o *concOp) conflict() bool {
	return o.err != nil && strings.Contains(o.err.Error(), "Transaction Conflict")
}

// runConcurrentTasks executes the tasks (each a sequence of operations; a
// task stops at its first failing operation) concurrently under a seeded
// schedule and returns the yield-point trace.
func runConcurrentTasks(rng *core.Rng, tasks [][]*concOp, maxSteps int) ([]string, error) {
	s := &coopSched{hook: &storage.SimPoint}
	choices := make([]int, maxSteps)
	for i := range choices {
		choices[i] = rng.IntN(1 << 16)
	}
	fns := make([]func(), len(tasks))
	for i := range tasks {
		seq := tasks[i]
		for _, o := range seq {
			o.skipped = true
		}
		fns[i] = func() {
			for k, o := range seq {
				o.skipped = false
				if k > 0 {
					s.yield("next-op") // a task's consecutive store calls are separate decisions
				}
				o.call = s.clock
				func() {
					defer func() {
						if r := recover(); r != nil {
							o.panicked = fmt.Sprintf("%v\n%s", r, debug.Stack())
						}
						o.ret = s.clock
					}()
					o.err = o.fn()
				}()
				if o.err != nil || o.panicked != "" {
					return
				}
			}
		}
	}
	err := s.run(fns, choices, maxSteps)
	return s.points, err
}

// linearizable searches for a total order of ops that respects real-time
// precedence (a returned before b was invoked => a first) in which step
// accepts every operation from the state left by its predecessors and final
// accepts the resulting state. step must not mutate its input state.
func linearizable[S any](init S, ops []*concOp, step func(S, *concOp) (S, bool), final func(S) bool) bool {
	n := len(ops)
	used := make([]bool, n)
	var rec func(s S, done int) bool
	rec = func(s S, done int) bool {
		if done == n {
			return final(s)
		}
		for i := 0; i < n; i++ {
			if used[i] {
				continue
			}
			// i may come next only if no unused op returned before i was invoked
			ok := true
			for j := 0; j < n; j++ {
				if j != i && !used[j] && ops[j].ret < ops[i].call {
					ok = false
					break
				}
			}
			if !ok {
				continue
			}
			ns, accepted := step(s, ops[i])
			if !accepted {
				continue
			}
			used[i] = true
			if rec(ns, done+1) {
				return true
			}
			used[i] = false
		}
		return false
	}
	return rec(init, 0)
}
