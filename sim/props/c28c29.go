package props

import (
	"encoding/binary"
	"fmt"
	"sort"
	"time"

	"verifsim/cluster"
	"verifsim/harness"

	"github.com/MixinNetwork/mixin/common"
	"github.com/MixinNetwork/mixin/config"
	"github.com/MixinNetwork/mixin/crypto"
)

// C29 — operator election is deterministic and never selects the node it
// removes.  C28 — consensus operations form a serialized single-transaction
// chain.
//
// Both run on the long-horizon membership rig. Before every valid operation
// the simulator first injects validly certified but forbidden variants of
// it: C29 — the same operation at an instant outside its epoch-hour window
// (the clock is jumped there first) or on the chain of a node that is not
// the elected operator; C28 — the operation batched with a transfer in one
// snapshot, carrying a stale or missing consensus reference, or stamped not
// later than the last consensus operation. None may be stored by any node.
// C29 additionally queries every node for the elected operator of every
// operation type at all record, day and window boundaries: all nodes agree,
// the operator is neither the oldest nor the newest accepted member of the
// rig's own membership model and never the removal candidate. C28
// additionally scans every node's consensus records and multi-transaction
// snapshots at the end.

func c29Elections(m *memRig, checks *int) {
	c := m.c
	day := uint64(24 * time.Hour)
	epoch := uint64(c.Epoch.UnixNano())
	var stamps []uint64
	add := func(t uint64) {
		if t > epoch+1 {
			stamps = append(stamps, t-1, t, t+1)
		}
	}
	for _, rec := range m.records {
		add(rec.ts)
		add(rec.ts + 12*uint64(time.Hour))
	}
	d0 := (m.now() - epoch) / day
	for d := d0 - min(d0, 3); d <= d0+1; d++ {
		for _, h := range []uint64{0, 7, 10, 13, 20} {
			add(epoch + d*day + h*uint64(time.Hour))
		}
	}
	ops := []byte{common.TransactionTypeMint, common.TransactionTypeNodePledge, common.TransactionTypeNodeRemove, common.TransactionTypeCustodianUpdateNodes}
	for _, ts := range stamps {
		acc := m.modelAccepted(ts)
		if len(acc) < 7 {
			continue
		}
		for _, op := range ops {
			var first crypto.Hash
			firstNode := -1
			for i := 0; i < c.Cfg.Nodes; i++ {
				n := c.Nodes[i]
				if !n.Alive {
					continue
				}
				var e crypto.Hash
				func() {
					defer func() { recover() }()
					e = n.Node.SimElect(op, ts)
				}()
				*checks++
				if op == common.TransactionTypeNodeRemove && e.HasValue() {
					if cand, err := n.Node.SimRemoveCandidate(e, ts); err == nil && cand != nil && cand.IdForNetwork == e {
						c.Violate("C29", "node-elected-to-remove-itself", fmt.Sprintf("n%d at %d: %s is both the elected proposer and the removal candidate", i, ts, e.String()[:8]), n)
						return
					}
				}
				if firstNode < 0 {
					first, firstNode = e, i
				} else if e != first {
					c.Violate("C29", "nodes-elect-different-operators", fmt.Sprintf("operation %d at %d: n%d elects %s, n%d elects %s", op, ts, firstNode, first.String()[:8], i, e.String()[:8]), n)
					return
				}
			}
			if !first.HasValue() {
				continue
			}
			if first == acc[0].id {
				c.Violate("C29", "oldest-member-elected", fmt.Sprintf("operation %d at %d elects the oldest accepted member %s (the removal candidate)", op, ts, first.String()[:8]), nil)
				return
			}
			if first == acc[len(acc)-1].id {
				c.Violate("C29", "newest-member-elected", fmt.Sprintf("operation %d at %d elects the newest accepted member %s", op, ts, first.String()[:8]), nil)
				return
			}
			found := false
			for _, a := range acc {
				if a.id == first {
					found = true
				}
			}
			if !found {
				c.Violate("C29", "non-member-elected", fmt.Sprintf("operation %d at %d elects %s which is not an accepted member", op, ts, first.String()[:8]), nil)
				return
			}
		}
	}
}

func refused(m *memRig, prop, sig string, it *injected, what string) {
	// proposal path first (half of the variants that join an open round): the chain's member announces
	// the same snapshot, uncertified, to the real nodes and runs the signing round; no real node may
	// answer with a commitment or a response
	if it != nil && !m.purge && m.proposalShare > 0 && m.rng.Chance(m.proposalShare) && !m.c.Halt {
		if leader := m.identOf(it.snap.NodeId); leader != nil {
			s := copySnapshot(it.snap)
			s.Signature = nil
			txs := append([]*common.VersionedTransaction{it.tx}, it.extra...)
			if b := m.proposeViaCosi(leader, s, txs, 2500*time.Millisecond); b != nil {
				m.r.out.Faults["byz.forbidden_proposal."+sig]++
				m.r.out.Evals++
				if b.realC > 0 || b.realR > 0 {
					m.c.Violate(prop, "forbidden-proposal-answered:"+sig, fmt.Sprintf("%d real nodes answered the announcement of snapshot %s with a commitment and %d the challenge with a response: %s", b.realC, it.snap.Hash.String()[:8], b.realR, what), nil)
					return
				}
			}
		}
	}
	where := m.refuseCandidate(it, 2500*time.Millisecond)
	if where == -2 {
		m.r.out.Probes["variant_not_buildable:"+sig]++
		return
	}
	m.r.out.Faults["byz.forbidden."+sig]++
	m.r.out.Evals++
	if where >= 0 {
		m.c.Violate(prop, "forbidden-operation-finalized:"+sig, fmt.Sprintf("n%d stored snapshot %s: %s", where, it.snap.Hash.String()[:8], what), m.c.Nodes[where])
	}
}

// otherMember picks an accepted member that is not `not`.
func (m *memRig) otherMember(not crypto.Hash) crypto.Hash {
	acc := m.leaders()
	for tries := 0; tries < 20; tries++ {
		id := acc[m.rng.IntN(len(acc))]
		if id.id != not {
			return id.id
		}
	}
	return not
}

func c29Variants(m *memRig, kind string) {
	c := m.c
	m.proposalShare = 0.5
	switch kind {
	case "mint":
		m.beforeMint = c29MintVariants(m)
	case "pledge":
		id := m.fresh()
		if id == nil || m.pledging() != nil {
			return
		}
		// outside the pledge hours (mint window or node-operation window)
		m.jumpTo([]int{7, 8, 9, 13, 16, 19}[m.rng.IntN(6)], 12*time.Hour+time.Minute-time.Duration(m.now()-m.lastChange()))
		coin := m.xinCoin()
		if coin == nil {
			return
		}
		ts := m.now()
		elected := m.ref().Node.SimElect(common.TransactionTypeNodePledge, ts)
		tx := m.buildPledge(id, coin, m.lastConsensusTx())
		refused(m, "C29", "pledge-outside-window", m.placeOn(elected, tx, false), "a pledge stamped outside the pledge hours")
		if c.Halt {
			return
		}
		// inside the window but on the chain of a node that is not elected
		m.jumpTo([]int{0, 2, 4, 10, 11, 21}[m.rng.IntN(6)], 0)
		ts = m.now()
		elected = m.ref().Node.SimElect(common.TransactionTypeNodePledge, ts)
		tx = m.buildPledge(id, coin, m.lastConsensusTx())
		refused(m, "C29", "pledge-by-non-elected-node", m.placeOn(m.otherMember(elected), tx, false), "a pledge proposed by a node that is not the elected operator")
	case "accept":
		id := m.pledging()
		if id == nil {
			return
		}
		m.jumpTo([]int{0, 5, 10, 12, 20, 23}[m.rng.IntN(6)], 12*time.Hour+time.Minute-time.Duration(m.now()-id.since))
		m.ownAccept = true
		it, err := m.acceptSnapshot(id, m.now())
		m.ownAccept = false
		if err == nil {
			refused(m, "C29", "accept-outside-window", it, "an acceptance stamped outside the node-operation hours")
		} else {
			m.r.out.Probes["variant_not_buildable:accept-outside-window"]++
		}
	case "remove":
		if len(m.accepted()) <= 7 || m.pledging() != nil {
			return
		}
		m.jumpTo(13+m.rng.IntN(7), 12*time.Hour+time.Minute-time.Duration(m.now()-m.lastChange()))
		ts := m.now()
		ref := m.ref()
		elected := ref.Node.SimElect(common.TransactionTypeNodeRemove, ts)
		if tx, err := ref.Node.SimBuildRemove(elected, ts); err == nil {
			refused(m, "C29", "remove-by-non-elected-node", m.placeOn(m.otherMember(elected), tx, false), "a removal proposed by a node that is not the elected operator")
		}
		if c.Halt || m.rng.Chance(0.4) {
			return
		}
		// the removal the elected operator builds in the last seconds of the window, stamped right after it
		epoch, day := uint64(c.Epoch.UnixNano()), uint64(24*time.Hour)
		end := uint64(config.KernelNodeAcceptTimeEnd+1) * uint64(time.Hour)
		t := epoch + (m.now()-epoch)/day*day + end - uint64(2*time.Second)
		if t <= m.now() {
			t += day
		}
		c.JumpTime(time.Duration(t - m.now()))
		c.Run(c.Q.Now + 200*time.Millisecond)
		ts = m.now()
		elected = ref.Node.SimElect(common.TransactionTypeNodeRemove, ts)
		tx, err := ref.Node.SimBuildRemove(elected, ts)
		if err != nil {
			m.r.out.Probes["variant_not_buildable:remove-outside-window"]++
			return
		}
		for (m.now()-epoch)%day < end+uint64(100*time.Millisecond) && (m.now()-epoch)%day > uint64(12*time.Hour) {
			c.Run(c.Q.Now + 200*time.Millisecond)
		}
		if ref.Node.SimElect(common.TransactionTypeNodeRemove, m.now()) != elected {
			m.r.out.Probes["variant_not_buildable:remove-outside-window"]++
			return
		}
		refused(m, "C29", "remove-outside-window", m.placeOn(elected, tx, false), "a removal built inside the node-operation hours but stamped after they ended")
	}
}

// c28OlderPledge finalizes a valid custodian update and then injects a
// pledge that references it correctly and is valid in every other respect
// (window, elected proposer, amount, funding, round structure) but is stamped
// shortly before (or exactly at) the update's timestamp.
func c28OlderPledge(m *memRig) {
	id := m.fresh()
	if id == nil || m.pledging() != nil {
		return
	}
	hours := []int{0, 1, 2, 3, 4, 11, 20, 21, 22}
	m.jumpTo(hours[m.rng.IntN(len(hours))], 12*time.Hour+time.Minute-time.Duration(m.now()-m.lastChange()))
	coin := m.xinCoin()
	if coin == nil {
		return
	}
	before := m.now()
	m.c.Run(m.c.Q.Now + 2*time.Second)
	if !m.custodianNow() {
		m.r.out.Probes["variant_not_buildable:timestamp-not-after-last-operation"]++
		return
	}
	m.r.out.Probes["op_mem.custodian"]++
	last := m.ref().Node.SimLastConsensusSnapshot()
	for _, ts := range []uint64{before + 1 + uint64(m.rng.Int64N(int64(time.Second))), last.Timestamp} {
		elected := m.ref().Node.SimElect(common.TransactionTypeNodePledge, ts)
		ch := m.inj.chainFor(elected)
		if ch == nil || ch.lastTime >= ts {
			m.r.out.Probes["variant_not_buildable:timestamp-not-after-last-operation"]++
			continue
		}
		tx := m.buildPledge(id, coin, m.lastConsensusTx())
		refused(m, "C28", "timestamp-not-after-last-operation", m.multi(elected, []*common.VersionedTransaction{tx}, ts), "a pledge stamped at or before the consensus operation it references")
		if m.c.Halt {
			return
		}
	}
}

// c28OlderRemove: the same for a removal (the canonical removal the elected
// operator would build, referencing the fresh custodian update, stamped
// shortly before or exactly at that update).
func c28OlderRemove(m *memRig) {
	if len(m.accepted()) <= 7 || m.pledging() != nil {
		return
	}
	m.jumpTo(13+m.rng.IntN(6), 12*time.Hour+time.Minute-time.Duration(m.now()-m.lastChange()))
	before := m.now()
	m.c.Run(m.c.Q.Now + 2*time.Second)
	if !m.custodianNow() {
		m.r.out.Probes["variant_not_buildable:timestamp-not-after-last-operation"]++
		return
	}
	m.r.out.Probes["op_mem.custodian"]++
	last := m.ref().Node.SimLastConsensusSnapshot()
	for _, ts := range []uint64{before + 1 + uint64(m.rng.Int64N(int64(time.Second))), last.Timestamp} {
		elected := m.ref().Node.SimElect(common.TransactionTypeNodeRemove, ts)
		ch := m.inj.chainFor(elected)
		if ch == nil || ch.lastTime >= ts {
			m.r.out.Probes["variant_not_buildable:timestamp-not-after-last-operation"]++
			continue
		}
		tx, err := m.ref().Node.SimBuildRemove(elected, ts)
		if err != nil {
			m.r.out.Probes["variant_not_buildable:timestamp-not-after-last-operation"]++
			continue
		}
		m.r.out.Probes["older_removal_offered"]++
		refused(m, "C28", "timestamp-not-after-last-operation", m.multi(elected, []*common.VersionedTransaction{tx}, ts), "a removal stamped at or before the consensus operation it references")
		if m.c.Halt {
			return
		}
	}
}

func c28Variants(m *memRig, kind string) {
	c := m.c
	m.proposalShare = 0.5
	switch kind {
	case "mint":
		m.beforeMint = c28MintVariants(m)
	case "pledge":
		id := m.fresh()
		if id == nil || m.pledging() != nil {
			return
		}
		if m.rng.Chance(0.5) {
			c28OlderPledge(m)
			if c.Halt {
				return
			}
		}
		m.jumpTo([]int{0, 2, 4, 10, 11, 21}[m.rng.IntN(6)], 12*time.Hour+time.Minute-time.Duration(m.now()-m.lastChange()))
		coin := m.xinCoin()
		if coin == nil {
			return
		}
		ts := m.now()
		elected := m.ref().Node.SimElect(common.TransactionTypeNodePledge, ts)
		good := m.buildPledge(id, coin, m.lastConsensusTx())
		// batched with an ordinary deposit in one snapshot
		m.seq++
		dep, _ := c.MakeDeposit(cluster.AssetBTC, common.NewIntegerFromString("0.25"), fmt.Sprintf("c28-batch-%d", m.seq), 0, []int{0}, 1)
		refused(m, "C28", "consensus-operation-batched", m.multi(elected, []*common.VersionedTransaction{good, dep}, 0), "a pledge batched with a deposit in one snapshot")
		if c.Halt {
			return
		}
		// stale consensus reference (only once a newer operation exists) or none
		if len(m.records) > 0 {
			_, _, txs, _ := c.Gns.BuildSnapshots()
			stale := m.buildPledge(id, coin, []crypto.Hash{txs[len(txs)-1].PayloadHash()})
			refused(m, "C28", "stale-consensus-reference", m.placeOn(elected, stale, false), "a pledge referencing the genesis custodian operation although later consensus operations exist")
			if c.Halt {
				return
			}
		}
		none := m.buildPledge(id, coin, nil)
		refused(m, "C28", "missing-consensus-reference", m.placeOn(elected, none, false), "a pledge without a consensus reference")
		if c.Halt {
			return
		}
	case "remove":
		if len(m.accepted()) <= 7 || m.pledging() != nil {
			return
		}
		if m.rng.Chance(0.5) {
			c28OlderRemove(m)
			if c.Halt {
				return
			}
		}
		m.jumpTo(13+m.rng.IntN(7), 12*time.Hour+time.Minute-time.Duration(m.now()-m.lastChange()))
		ts := m.now()
		ref := m.ref()
		elected := ref.Node.SimElect(common.TransactionTypeNodeRemove, ts)
		tx, err := ref.Node.SimBuildRemove(elected, ts)
		if err != nil {
			return
		}
		m.seq++
		dep, _ := c.MakeDeposit(cluster.AssetBTC, common.NewIntegerFromString("0.25"), fmt.Sprintf("c28-batch-%d", m.seq), 0, []int{0}, 1)
		refused(m, "C28", "consensus-operation-batched", m.multi(elected, []*common.VersionedTransaction{tx, dep}, 0), "a removal batched with a deposit in one snapshot")
	}
}

// c28History scans one node's durable consensus chain and multi-transaction
// snapshots.
func c28History(m *memRig, n *cluster.SNode, checks *int) {
	c := m.c
	kvs, err := n.Store.SimDumpGraph("CONSENSUSSNAPSHOT", true)
	if err != nil {
		return
	}
	type rec struct {
		ts   uint64
		hash crypto.Hash
		next []byte
	}
	var recs []rec
	for _, kv := range kvs {
		k := kv.Key[len("CONSENSUSSNAPSHOT"):]
		var h crypto.Hash
		copy(h[:], k[8:])
		recs = append(recs, rec{binary.BigEndian.Uint64(k[:8]), h, kv.Value})
	}
	sort.Slice(recs, func(i, j int) bool { return recs[i].ts < recs[j].ts })
	var prevTx crypto.Hash
	for i, r := range recs {
		*checks++
		if i > 0 && recs[i-1].ts >= r.ts {
			c.Violate("C28", "consensus-chain-timestamps-not-increasing", fmt.Sprintf("n%d: records at %d and %d", n.Idx, recs[i-1].ts, r.ts), n)
			return
		}
		snap, err := n.Store.ReadSnapshot(r.hash)
		if err != nil || snap == nil || len(snap.Transactions) != 1 {
			c.Violate("C28", "consensus-record-without-single-transaction-snapshot", fmt.Sprintf("n%d record %s", n.Idx, r.hash.String()[:8]), n)
			return
		}
		tx, _, _ := n.Store.ReadTransaction(snap.Transactions[0])
		if tx == nil || !(isConsensusClass(tx) || i == 0) {
			c.Violate("C28", "consensus-record-of-ordinary-transaction", fmt.Sprintf("n%d record %s", n.Idx, r.hash.String()[:8]), n)
			return
		}
		if i > 0 {
			if len(tx.References) < 1 || tx.References[0] != prevTx {
				c.Violate("C28", "consensus-chain-broken-reference", fmt.Sprintf("n%d: operation %s does not reference its predecessor %s", n.Idx, snap.Transactions[0].String()[:8], prevTx.String()[:8]), n)
				return
			}
		}
		if i > 0 && string(recs[i-1].next) != string(snap.Transactions[0][:]) {
			c.Violate("C28", "consensus-chain-wrong-forward-pointer", fmt.Sprintf("n%d record %d does not point to operation %s", n.Idx, i-1, snap.Transactions[0].String()[:8]), n)
			return
		}
		prevTx = snap.Transactions[0]
	}
	// multi-transaction snapshots hold batchable classes only; consensus-class
	// transactions are alone
	snaps, err := n.Store.SimDumpGraph("SNAPSHOT", true)
	if err != nil {
		return
	}
	for _, kv := range snaps {
		s, err := common.UnmarshalVersionedSnapshot(kv.Value)
		if err != nil || len(s.Transactions) < 2 {
			continue
		}
		for _, h := range s.Transactions {
			*checks++
			tx, _, _ := n.Store.ReadTransaction(h)
			if tx != nil && !tx.IsSnapshotBatchable() {
				c.Violate("C28", "unbatchable-transaction-in-batch", fmt.Sprintf("n%d snapshot %s holds %d transactions incl. type %d", n.Idx, s.PayloadHash().String()[:8], len(s.Transactions), tx.TransactionType()), n)
				return
			}
		}
	}
}

// c29MintVariants: the day's valid mint on the chain of a member that is not the elected operator.
func c29MintVariants(m *memRig) func(tx *common.VersionedTransaction, elected *memIdent) {
	return func(tx *common.VersionedTransaction, elected *memIdent) {
		refused(m, "C29", "mint-by-non-elected-node", m.placeOn(m.otherMember(elected.id), tx, false), "the universal mint proposed by a node that is not the elected operator")
	}
}

// c28MintVariants: the day's valid mint batched with a deposit, and a mint that references an older
// consensus operation.
func c28MintVariants(m *memRig) func(tx *common.VersionedTransaction, elected *memIdent) {
	return func(tx *common.VersionedTransaction, elected *memIdent) {
		c := m.c
		m.seq++
		dep, _ := c.MakeDeposit(cluster.AssetBTC, common.NewIntegerFromString("0.25"), fmt.Sprintf("c28-batch-%d", m.seq), 0, []int{0}, 1)
		refused(m, "C28", "consensus-operation-batched", m.multi(elected.id, []*common.VersionedTransaction{tx, dep}, 0), "the universal mint batched with a deposit in one snapshot")
		if c.Halt || len(m.records) == 0 {
			return
		}
		_, _, txs, _ := c.Gns.BuildSnapshots()
		stale := tx.Transaction
		stale.References = []crypto.Hash{txs[len(txs)-1].PayloadHash()}
		signed := &common.SignedTransaction{Transaction: stale}
		if err := signed.SignRaw(elected.signer.PrivateSpendKey); err != nil {
			return
		}
		refused(m, "C28", "stale-consensus-reference", m.placeOn(elected.id, signed.AsVersioned(), false), "a universal mint referencing the genesis custodian operation although later consensus operations exist")
	}
}

func c29Exec(p *harness.Plan) *harness.Outcome {
	checks := 0
	after := func(m *memRig, kind string) { c29Elections(m, &checks) }
	r, m, bad := runMembership("C29", p, after, c29Variants)
	if bad != nil {
		return bad
	}
	defer r.c.Close()
	if !r.c.Halt {
		c29Elections(m, &checks)
		r.c.Run(r.c.Q.Now + 3*time.Second)
		for _, it := range m.refused {
			if m.laterValid(it) {
				// the same transaction was finalized by a valid operation afterwards: a second certified
				// snapshot carrying an already finalized removal changes nothing and is let in (the
				// re-delivery shortcut of validateNodeRemoveSnapshot); the operation itself happened inside
				// its window
				r.out.Probes["late_check_skipped:same_transaction_finalized_validly_later"]++
				continue
			}
			if w := m.anywhere(it); w >= 0 && !r.c.Halt {
				r.c.Violate("C29", "forbidden-operation-finalized:late", fmt.Sprintf("n%d stored forbidden snapshot %s", w, it.snap.Hash.String()[:8]), r.c.Nodes[w])
			}
		}
	}
	r.out.Evals += checks
	r.out.Probes["election_queries"] += checks
	r.out.Probes["membership_records"] += len(m.records)
	r.out.Probes["forbidden_variants_injected"] += len(m.refused)
	relabelPanic(r, "C29")
	return r.finish(len(m.records) > 0 && len(m.refused) > 0, map[string]any{"records": len(m.records), "forbidden_variants": len(m.refused), "election_queries": checks})
}

func c28Exec(p *harness.Plan) *harness.Outcome {
	checks := 0
	r, m, bad := runMembership("C28", p, nil, c28Variants)
	if bad != nil {
		return bad
	}
	defer r.c.Close()
	if !r.c.Halt {
		r.c.Run(r.c.Q.Now + 3*time.Second)
		for _, it := range m.refused {
			if w := m.anywhere(it); w >= 0 && !r.c.Halt {
				r.c.Violate("C28", "forbidden-operation-finalized:late", fmt.Sprintf("n%d stored forbidden snapshot %s", w, it.snap.Hash.String()[:8]), r.c.Nodes[w])
			}
		}
		for i := 0; i < r.c.Cfg.Nodes && !r.c.Halt; i++ {
			if r.c.Nodes[i].Alive {
				c28History(m, r.c.Nodes[i], &checks)
			}
		}
	}
	r.out.Evals += checks
	r.out.Probes["history_checks"] += checks
	r.out.Probes["membership_records"] += len(m.records)
	r.out.Probes["forbidden_variants_injected"] += len(m.refused)
	relabelPanic(r, "C28")
	return r.finish(len(m.records) > 0 && len(m.refused) > 0, map[string]any{"records": len(m.records), "forbidden_variants": len(m.refused), "history_checks": checks})
}

func init() {
	harness.Register(&harness.Property{
		ID:    "C29",
		Level: "exploration",
		Rule: "seeded membership histories (as C10); before each valid pledge / accept / removal the validly certified forbidden variants are injected: pledge stamped in the mint or node-operation hours, pledge or removal on the chain of a non-elected member, acceptance outside hours 13-19 (the cluster clock is jumped to those instants); after every record all live nodes are asked for the elected operator of 4 operation types at record, +12 h, day and window boundaries (+-1 ns) and the answers are compared with each other and with the rig's own accepted-member model (never oldest, never newest, always a member); " +
			"late histories also contain universal mints with their forbidden variants; half of the variants that join an open round are first announced as proposals in a real signing round run by the simulator for the chain's member (no real node may answer), and about half of the valid consensus operations are certified by the real nodes through such a round; " +
			"non-trivial = at least one record and one forbidden variant; distinct = canonical-log digests",
		Components: clusterComponents,
		Assume:     append([]string{"membership sizes bounded by the rig (7-9 real + up to 24 key-only identities), days bounded by the history length"}, clusterAssume...),
		Gen:        memGen("C29"),
		Exec:       c29Exec,
		QuickRuns:  64, ThoroughRuns: 2000,
		QuickWall: 30 * time.Second, ThoroughWall: 12 * time.Minute,
	})
	harness.Register(&harness.Property{
		ID:    "C28",
		Level: "exploration",
		Rule: "seeded membership histories (as C10); before each valid pledge / removal the validly certified forbidden variants are injected through the finalization path: the operation batched with a deposit in one snapshot, a stale or missing consensus reference, a timestamp equal to or 1 ns before the last consensus operation; none may be stored anywhere; at the end every node's consensus records (timestamps strictly increasing, each operation alone in its snapshot and referencing its predecessor, forward pointers) and every multi-transaction snapshot (batchable classes only) are scanned; " +
			"late histories also contain universal mints (batched with a deposit, stale reference); half of the variants are first announced as proposals in a real signing round run by the simulator (no real node may answer), and about half of the valid consensus operations are certified by the real nodes through such a round; " +
			"non-trivial = at least one record and one forbidden variant; distinct = canonical-log digests. Proposal-path (announcement) rejection is exercised only through the validation shared with the finalization path.",
		Components: clusterComponents,
		Assume:     clusterAssume,
		Gen:        memGen("C28"),
		Exec:       c28Exec,
		QuickRuns:  64, ThoroughRuns: 2000,
		QuickWall: 30 * time.Second, ThoroughWall: 12 * time.Minute,
	})
}

// laterValid reports whether the transaction of a refused variant was finalized
// by a valid operation of the history afterwards.
func (m *memRig) laterValid(it *injected) bool {
	h := it.tx.PayloadHash()
	for _, rec := range m.records {
		if rec.tx == h {
			return true
		}
	}
	return false
}
