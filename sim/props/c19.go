package props

import (
	"fmt"
	"time"

	"verifsim/cluster"
	"verifsim/core"
	"verifsim/harness"

	"github.com/MixinNetwork/mixin/common"
	"github.com/MixinNetwork/mixin/config"
	"github.com/MixinNetwork/mixin/crypto"
)

// C19 — a round never spans a full round gap and holds no duplicates.
//
// R1 with finalization injection: the simulator chooses snapshot timestamps
// freely (validly certified): clusters at start+gap-1 / +gap / +gap+1 ns,
// timestamps before the round start that keep or break the span, equal
// timestamps, re-used transactions, day-boundary crossings, repeated
// deliveries in random order. Oracle: every stored round of every chain on
// every node has pairwise distinct hashes, timestamps and transactions, lies
// within one day and spans strictly less than the gap; candidates the rules
// forbid are never written; closing a round never panics (tripwire).

const c19Day = uint64(24 * time.Hour)

type c19Mon struct {
	cluster.BaseMonitor
	r       *crun
	checked int
}

func (m *c19Mon) checkRound(n *cluster.SNode, chain crypto.Hash, round uint64) {
	snaps, err := n.Store.ReadSnapshotsForNodeRound(chain, round)
	if err != nil || len(snaps) == 0 {
		return
	}
	c := m.r.c
	m.checked++
	m.r.out.Evals++
	var start, end uint64
	ts := map[uint64]bool{}
	hs := map[crypto.Hash]bool{}
	txs := map[crypto.Hash]bool{}
	for i, s := range snaps {
		if i == 0 || s.Timestamp < start {
			start = s.Timestamp
		}
		if s.Timestamp > end {
			end = s.Timestamp
		}
		if ts[s.Timestamp] {
			c.Violate("C19", "duplicate-timestamp-in-round", fmt.Sprintf("n%d chain %s round %d holds two snapshots at %d", n.Idx, chain.String()[:8], round, s.Timestamp), n)
			return
		}
		ts[s.Timestamp] = true
		h := s.PayloadHash()
		if hs[h] {
			c.Violate("C19", "duplicate-snapshot-in-round", fmt.Sprintf("n%d chain %s round %d", n.Idx, chain.String()[:8], round), n)
			return
		}
		hs[h] = true
		for _, t := range s.Transactions {
			if txs[t] {
				c.Violate("C19", "duplicate-transaction-in-round", fmt.Sprintf("n%d chain %s round %d transaction %s twice", n.Idx, chain.String()[:8], round, t.String()[:8]), n)
				return
			}
			txs[t] = true
		}
	}
	if end-start >= config.SnapshotRoundGap {
		c.Violate("C19", "round-spans-gap", fmt.Sprintf("n%d chain %s round %d spans %d ns (gap %d)", n.Idx, chain.String()[:8], round, end-start, config.SnapshotRoundGap), n)
		return
	}
	if round > 0 && start/c19Day != end/c19Day {
		c.Violate("C19", "round-crosses-day", fmt.Sprintf("n%d chain %s round %d from %d to %d", n.Idx, chain.String()[:8], round, start, end), n)
	}
}

func (m *c19Mon) AfterStore(n *cluster.SNode, call *cluster.StoreCall) {
	if call.Name != "WriteSnapshot" || call.Err != nil {
		return
	}
	s := snapArg(call)
	m.checkRound(n, s.NodeId, s.RoundNumber)
	// the live round must agree with the durable one
	if ch := n.Node.SimChain(s.NodeId); ch != nil && ch.State != nil {
		live := ch.SimCacheSnapshots()
		var lstart, lend uint64
		for i, ls := range live {
			if i == 0 || ls.Timestamp < lstart {
				lstart = ls.Timestamp
			}
			if ls.Timestamp > lend {
				lend = ls.Timestamp
			}
		}
		if len(live) > 0 && lend-lstart >= config.SnapshotRoundGap {
			m.r.c.Violate("C19", "live-round-spans-gap", fmt.Sprintf("n%d chain %s live round spans %d", n.Idx, s.NodeId.String()[:8], lend-lstart), n)
		}
	}
}

func c19Gen(rng *core.Rng, tier string) *harness.Plan {
	p := &harness.Plan{Seed: rng.Uint64(), Params: map[string]int64{}}
	p.Params["nodes"] = 7
	// some runs start a few seconds before a day boundary (the epoch is day-aligned)
	if rng.Chance(0.3) {
		p.Params["start_s"] = int64(1+rng.IntN(3))*86400 - int64(4+rng.IntN(20))
	} else {
		p.Params["start_s"] = int64(3600 + rng.IntN(80000))
	}
	if rng.Chance(0.5) {
		p.Params["dup_ppm"] = int64(rng.IntN(200000))
	}
	if rng.Chance(0.5) {
		p.Params["reorder_ppm"] = int64(rng.IntN(300000))
	}
	p.Params["maxlat_ms"] = int64(5 + rng.IntN(100))
	count := 20 + rng.IntN(25)
	if tier == "thorough" {
		count = 50 + rng.IntN(100)
	}
	at := int64(2 * time.Second / time.Microsecond)
	chains := 1 + rng.IntN(3)
	for i := 0; i < count; i++ {
		at += int64(rng.Dur(50*time.Millisecond, 1500*time.Millisecond) / time.Microsecond)
		p.Ops = append(p.Ops, harness.Op{At: at, Kind: "probe", N: rng.IntN(chains), A: int64(rng.IntN(12)), C: int64(rng.Uint64() >> 1), S: fmt.Sprint("p", i)})
	}
	p.Params["dur_ms"] = at/1000 + 3000
	return p
}

func c19Exec(p *harness.Plan) *harness.Outcome {
	r, err := newClusterRun("C19", p)
	if err != nil {
		o := harness.NewOutcome()
		o.ToolError = err.Error()
		return o
	}
	defer r.c.Close()
	c := r.c
	if err := c.Boot(); err != nil {
		r.out.ToolError = err.Error()
		return r.out
	}
	inj, err := newInjector(c, core.NewRng(core.SplitMix64(p.Seed^0x119)))
	if err != nil {
		r.out.ToolError = err.Error()
		return r.out
	}
	mon := &c19Mon{r: r}
	c.AddMonitor(mon)
	gap := config.SnapshotRoundGap
	var expectIn, expectOut []*injected
	kinds := map[string]int{}
	send := func(it *injected, vr *core.Rng) {
		reps := 1 + vr.IntN(2)
		for k := 0; k < reps; k++ {
			for to := 0; to < inj.n; to++ {
				inj.deliver(c.External(), c.Nodes[to], it.tx, it.snap, vr.Dur(0, 60*time.Millisecond)+time.Duration(k)*20*time.Millisecond)
			}
		}
	}
	r.extra["probe"] = func(op harness.Op, idx int) {
		vr := core.NewRng(uint64(op.C))
		inj.now = c.NowNano()
		ch := inj.chains[op.N%len(inj.chains)]
		if len(ch.snaps) == 0 {
			ts := inj.now
			if ts <= ch.lastTime {
				ts = ch.lastTime + gap + 1
			}
			it := inj.place(ch, ch.number, ts, nil, true)
			expectIn = append(expectIn, it)
			send(it, vr)
			kinds["base"]++
			return
		}
		start, end := ch.span()
		has := func(ts uint64) bool {
			for _, s := range ch.snaps {
				if s.Timestamp == ts {
					return true
				}
			}
			return false
		}
		fits := func(ts uint64) bool { // the property's own rule
			lo, hi := start, end
			if ts < lo {
				lo = ts
			}
			if ts > hi {
				hi = ts
			}
			return !has(ts) && hi-lo < gap && ts/c19Day == start/c19Day
		}
		var ts uint64
		var tx *common.VersionedTransaction
		name := ""
		kind := op.A
		if now := inj.now; now%c19Day < gap && start/c19Day != now/c19Day && vr.Chance(0.7) {
			kind = 10 // a new day has just begun: open a round right after midnight
		} else if start%c19Day < gap && vr.Chance(0.5) {
			kind = 12 // the head round started right after midnight: try the last instants of the day before
		}
		switch kind {
		case 0:
			name, ts = "start+gap-1", start+gap-1
		case 1:
			name, ts = "start+gap", start+gap
		case 2:
			name, ts = "start+gap+1", start+gap+1
		case 3:
			name, ts = "inside", end+1+uint64(vr.IntN(1000))
		case 4:
			name, ts = "before-start-keeps-span", start-1-uint64(vr.IntN(1000))
		case 5:
			name, ts = "before-start-breaks-span", end-gap-uint64(vr.IntN(3))
		case 6:
			name, ts = "end-gap+1", end-gap+1
		case 7:
			name, ts = "equal-timestamp", ch.snaps[vr.IntN(len(ch.snaps))].Timestamp
		case 8:
			name, ts = "reused-transaction", end+1
			prev := ch.snaps[vr.IntN(len(ch.snaps))]
			for _, e := range append(expectIn, expectOut...) {
				if e.snap.Hash == prev.PayloadHash() {
					tx = e.tx
				}
			}
		case 9:
			name, ts = "next-day", (start/c19Day+1)*c19Day+uint64(vr.IntN(1000))
		case 10:
			// close the round: the following snapshot opens the next one
			it, err := inj.next(op.N%len(inj.chains), true)
			if err == nil {
				expectIn = append(expectIn, it)
				send(it, vr)
				kinds["new-round"]++
			}
			return
		case 12:
			name, ts = "previous-day-within-gap", (start/c19Day)*c19Day-1-uint64(vr.IntN(int(gap/4)))
		default:
			name, ts = "inside-far", start+uint64(vr.Int64N(int64(gap)))
		}
		accept := fits(ts) && tx == nil
		if !accept {
			// a variant is forbidden relative to what the round holds; a node that has not applied all of
			// that yet (delay, duplication, reordering) may legitimately see it fit, and two certified
			// snapshots that exclude each other cannot both come from honest signers anyway: the variant is
			// only offered once every node holds the whole round
			for _, held := range ch.snaps {
				for i := 0; i < inj.n; i++ {
					if s, _ := c.Nodes[i].Store.ReadSnapshot(held.PayloadHash()); s == nil {
						kinds["variant-postponed:round-not-everywhere-yet"]++
						return
					}
				}
			}
		}
		it := inj.place(ch, ch.number, ts, tx, accept)
		kinds[name]++
		if accept {
			expectIn = append(expectIn, it)
		} else {
			expectOut = append(expectOut, it)
		}
		send(it, vr)
		c.Trace.Logf(c.Q.Now, "probe %s chain %s r%d ts%d accept=%v", name, ch.id.String()[:6], ch.number, ts, accept)
	}
	r.schedule()
	r.settled = func() bool {
		for _, it := range expectIn {
			for i := 0; i < inj.n; i++ {
				if s, _ := c.Nodes[i].Store.ReadSnapshot(it.snap.Hash); s == nil {
					return false
				}
			}
		}
		return true
	}
	c.Run(time.Duration(p.P("dur_ms", 30000)) * time.Millisecond)
	if !c.Halt {
		r.settle(100*time.Second, false)
	}
	missing, wrongly := 0, 0
	if !c.Halt {
		for _, it := range expectOut {
			for i := 0; i < inj.n; i++ {
				if s, _ := c.Nodes[i].Store.ReadSnapshot(it.snap.Hash); s != nil {
					wrongly++
					c.Violate("C19", "forbidden-snapshot-accepted", fmt.Sprintf("n%d stored snapshot %s (ts %d, round %d of chain %s) which the round rules forbid", i, it.snap.Hash.String()[:8], it.snap.Timestamp, it.snap.RoundNumber, it.chain.id.String()[:8]), c.Nodes[i])
				}
			}
		}
		for _, it := range expectIn {
			for i := 0; i < inj.n; i++ {
				if s, _ := c.Nodes[i].Store.ReadSnapshot(it.snap.Hash); s == nil {
					missing++
				}
			}
		}
		// final sweep over every stored round
		for i := 0; i < inj.n && !c.Halt; i++ {
			for _, ch := range inj.chains {
				for round := uint64(0); round <= ch.number && !c.Halt; round++ {
					mon.checkRound(c.Nodes[i], ch.id, round)
				}
			}
		}
	}
	r.out.Probes["expected_accepted"] += len(expectIn)
	r.out.Probes["expected_rejected"] += len(expectOut)
	r.out.Probes["allowed_but_missing_somewhere"] += missing
	r.out.Probes["rounds_checked"] += mon.checked
	for k, v := range kinds {
		r.out.Faults["byz.timestamp."+k] += v
	}
	relabelPanic(r, "C19")
	return r.finish(len(expectOut) > 0 && len(expectIn) > 1, map[string]any{"accepted": len(expectIn), "rejected": len(expectOut), "kinds": kinds, "missing": missing})
}

func init() {
	harness.Register(&harness.Property{
		ID:    "C19",
		Level: "exploration",
		Rule: "seeded cluster runs (7 real nodes) whose history is injected with validly certified snapshots at adversarial timestamps on 1-3 chains: start+gap-1/+gap/+gap+1, before the start keeping or breaking the span, end-gap+1, equal timestamps, re-used transactions, next-day, random inside, forced round closures; 30% of runs start seconds before a day boundary; deliveries duplicated/reordered; every stored and live round is checked after each write and in a final sweep; candidates the rules forbid must be stored nowhere; " +
			"rounds opened right after midnight get candidates stamped in the last instants of the previous day; " +
			"non-trivial = at least one forbidden candidate and two accepted snapshots; distinct = canonical-log digests",
		Components: clusterComponents,
		Assume:     clusterAssume,
		Gen:        c19Gen,
		Exec:       c19Exec,
		QuickRuns:  64, ThoroughRuns: 3000,
		QuickWall: 45 * time.Second, ThoroughWall: 12 * time.Minute,
	})
}
