package props

import (
	"fmt"
	"sync"
	"time"

	"verifsim/cluster"
	"verifsim/core"
	"verifsim/harness"

	"github.com/MixinNetwork/mixin/common"
	"github.com/MixinNetwork/mixin/crypto"
	"github.com/MixinNetwork/mixin/p2p"
)

// C31 — every message the node sends fits the transport limit.
//
// R1: the cache queue of a real node is filled with admissible transactions
// whose signed envelopes are far larger than their payloads (up to 256 inputs,
// each a 64-of-64 output with 64 valid signatures) so that the real proposal
// batcher forms batches; the ledger they spend is manufactured by
// finalization injection. Every frame drained at the transport seam is
// measured against the transport maximum, framed with the 6-byte header the
// QUIC client writes and parsed back (type and transaction list must
// survive). The QUIC stream itself is a stub, so "oversize frames are refused
// before allocation" is not exercised.

type c31Mon struct {
	cluster.BaseMonitor
	r          *crun
	maxSeen    int
	frames     int
	bundles    int
	maxTxs     int
	maxRatio   float64
	challenges int
	muteSync   bool
}

func (m *c31Mon) OnSend(from, to *cluster.SNode, data []byte) [][]byte {
	c := m.r.c
	m.frames++
	if len(data) > m.maxSeen {
		m.maxSeen = len(data)
	}
	typ := p2p.SimMessageType(data)
	if m.muteSync && (typ == p2p.PeerMessageTypeFinalizedTransactionBundle || typ == p2p.PeerMessageTypeBatchSnapshotFinalization) && len(data) <= p2p.TransportMessageMaxSize {
		m.r.out.Evals++
		return [][]byte{} // measured, then withheld: the other nodes are not part of the quick scenario
	}
	if len(data) > p2p.TransportMessageMaxSize {
		c.Violate("C31", fmt.Sprintf("message-exceeds-transport-limit:type-%d", typ), fmt.Sprintf("n%d built a type %d message of %d bytes for n%d (limit %d)", from.Idx, typ, len(data), to.Idx, p2p.TransportMessageMaxSize), from)
		return [][]byte{}
	}
	if len(data) < 1 {
		c.Violate("C31", "empty-message", "", from)
		return nil
	}
	m.r.out.Evals++
	switch typ {
	case p2p.PeerMessageTypeTransactionBundle, p2p.PeerMessageTypeFinalizedTransactionBundle, p2p.PeerMessageTypeBatchFullChallenge, p2p.PeerMessageTypeBatchTransactionChallenge:
		msg, err := p2p.SimParse(data)
		if err != nil {
			c.Violate("C31", "built-message-does-not-parse", fmt.Sprintf("type %d: %v", typ, err), from)
			return nil
		}
		if typ == p2p.PeerMessageTypeBatchTransactionChallenge || typ == p2p.PeerMessageTypeBatchFullChallenge {
			if len(msg.Transactions) > 0 {
				m.challenges++
			}
		}
		if len(msg.Transactions) > 0 {
			m.bundles++
			payload := 0
			for _, t := range msg.Transactions {
				payload += len(t.PayloadMarshal())
			}
			if len(msg.Transactions) > m.maxTxs {
				m.maxTxs = len(msg.Transactions)
			}
			if r := float64(len(data)) / float64(payload+1); r > m.maxRatio {
				m.maxRatio = r
			}
		}
	}
	return nil
}

func c31Gen(rng *core.Rng, tier string) *harness.Plan {
	p := &harness.Plan{Seed: rng.Uint64(), Params: map[string]int64{}}
	p.Params["nodes"] = 7
	p.Params["start_s"] = int64(3600 + rng.IntN(80000))
	p.Params["maxlat_ms"] = 20
	// scale: big transactions x inputs x keys per input
	switch {
	case tier == "thorough" && rng.Chance(0.6):
		p.Params["txs"], p.Params["inputs"], p.Params["keys"] = int64(34+rng.IntN(8)), 256, 64
	case tier == "thorough":
		p.Params["txs"], p.Params["inputs"], p.Params["keys"] = int64(60+rng.IntN(40)), int64(100+rng.IntN(50)), 64
	default:
		p.Params["txs"], p.Params["inputs"], p.Params["keys"] = int64(34+rng.IntN(3)), 256, 64
	}
	if rng.Chance(0.5) {
		// storage mode: a dozen transactions of (up to exactly) the maximum transaction size, 4 MiB signed
		p.Params["storage"] = 1
		p.Params["txs"] = int64(9 + rng.IntN(5))
		p.Params["exact_ppm"] = 1000000
		if rng.Chance(0.35) {
			p.Params["exact_ppm"] = int64(300000 + rng.IntN(700000))
		}
	}
	if tier != "thorough" && p.Params["storage"] == 0 {
		// quick runs of the signature-heavy mode also run the (cheap) storage mode first, so that every
		// quick tier covers both ways of filling a batch
		p.Params["also_storage"] = 1
		p.Params["storage_txs"] = int64(9 + rng.IntN(5))
	}
	if tier != "thorough" {
		// quick: stop once the proposer's batch frames have been measured (the
		// other nodes would spend minutes verifying half a million signatures)
		p.Params["stop_after_proposal"] = 1
	} else if p.Params["storage"] == 0 {
		// thorough: most signature-heavy runs stop there too (a full run takes the better part of an hour
		// of signature verification on seven nodes); the others go all the way to finalization with a
		// sixth of the load
		if rng.Chance(0.85) {
			p.Params["stop_after_proposal"] = 1
		} else {
			p.Params["txs"], p.Params["inputs"] = int64(5+rng.IntN(3)), 256
		}
	}
	p.Params["target"] = int64(rng.IntN(7))
	p.Params["spread_ms"] = int64(rng.IntN(900))
	return p
}

func c31Exec(p *harness.Plan) *harness.Outcome {
	if p.P("also_storage", 0) == 1 {
		sub := p.Clone()
		delete(sub.Params, "also_storage")
		sub.Params["storage"], sub.Params["txs"], sub.Params["exact_ppm"] = 1, p.P("storage_txs", 10), 1000000
		first := c31Exec(sub)
		if first.Violation != nil || first.ToolError != "" {
			return first
		}
		main := p.Clone()
		delete(main.Params, "also_storage")
		out := c31Exec(main)
		out.Evals += first.Evals
		for k, v := range first.Probes {
			out.Probes[k] += v
		}
		for k, v := range first.Faults {
			out.Faults[k] += v
		}
		out.SimSeconds += first.SimSeconds
		return out
	}
	r, err := newClusterRun("C31", p)
	if err != nil {
		o := harness.NewOutcome()
		o.ToolError = err.Error()
		return o
	}
	defer r.c.Close()
	c := r.c
	if err := c.Boot(); err != nil {
		r.out.ToolError = err.Error()
		return r.out
	}
	quick := p.P("stop_after_proposal", 0) == 1
	targetIdx := r.node(int(p.P("target", 0))).Idx
	mon := &c31Mon{r: r, muteSync: quick}
	c.AddMonitor(mon)
	inj, err := newInjector(c, core.NewRng(core.SplitMix64(p.Seed^0x131)))
	if err != nil {
		r.out.ToolError = err.Error()
		return r.out
	}
	if p.P("storage", 0) == 1 {
		return c31Storage(r, p, mon, inj, quick, targetIdx)
	}
	nTx, nIn, nKeys := int(p.P("txs", 34)), int(p.P("inputs", 256)), int(p.P("keys", 64))
	owners := make([]int, nKeys)
	accounts := make([]*common.Address, nKeys)
	for i := range owners {
		owners[i] = 100 + i
		accounts[i] = c.User(100 + i)
	}
	// 1. ledger by injection: per big transaction one deposit and one fan-out
	type fan struct {
		ver *common.VersionedTransaction
	}
	fans := make([]*common.VersionedTransaction, nTx)
	deposits := make([]*common.VersionedTransaction, nTx)
	var wg sync.WaitGroup
	sem := make(chan struct{}, 8)
	for i := 0; i < nTx; i++ {
		dep, coin := c.MakeDeposit(cluster.AssetSOL, common.NewInteger(uint64(nIn)), fmt.Sprintf("c31-%d-%d", p.Seed%997, i), 0, []int{0}, 1)
		deposits[i] = dep
		wg.Add(1)
		sem <- struct{}{}
		go func(i int, coin *cluster.Coin) { // key derivation is pure; parallel for wall time only
			defer wg.Done()
			defer func() { <-sem }()
			tx := common.NewTransactionV5(coin.Asset)
			tx.AddInput(coin.Tx, coin.Index)
			for o := 0; o < nIn; o++ {
				sh := crypto.Blake3Hash([]byte(fmt.Sprintf("c31fan%d-%d", i, o)))
				tx.AddScriptOutput(accounts, common.NewThresholdScript(uint8(nKeys)), common.NewInteger(1), append(sh[:], sh[:]...))
			}
			signed := &common.SignedTransaction{Transaction: *tx}
			if err := signed.SignUTXO(coin.UTXO, []*common.Address{c.User(0)}); err != nil {
				panic(err)
			}
			fans[i] = signed.AsVersioned()
		}(i, coin)
	}
	wg.Wait()
	chain := 0
	deliver := func(tx *common.VersionedTransaction) *injected {
		inj.now = c.NowNano()
		it, err := inj.nextWith(chain%inj.n, false, tx)
		chain++
		if err != nil {
			return nil
		}
		for to := 0; to < inj.n; to++ {
			if quick && to != targetIdx {
				continue
			}
			inj.deliver(c.External(), c.Nodes[to], it.tx, it.snap, time.Duration(to)*time.Millisecond)
		}
		return it
	}
	var setup []*injected
	for i := 0; i < nTx; i++ {
		setup = append(setup, deliver(deposits[i]))
		c.Run(c.Q.Now + 150*time.Millisecond)
	}
	c.Run(c.Q.Now + 2*time.Second)
	for i := 0; i < nTx; i++ {
		setup = append(setup, deliver(fans[i]))
		c.Run(c.Q.Now + 150*time.Millisecond)
	}
	ready := func() bool {
		for _, it := range setup {
			if it == nil {
				return false
			}
			if quick {
				if !c.FinalizedOn(c.Nodes[targetIdx], it.tx.PayloadHash()) {
					return false
				}
			} else if !c.FinalizedEverywhere(it.tx.PayloadHash()) {
				return false
			}
		}
		return true
	}
	for tries := 0; tries < 60 && !ready() && !c.Halt; tries++ {
		c.Run(c.Q.Now + time.Second)
	}
	if c.Halt || !ready() {
		if !c.Halt {
			r.out.ToolError = "ledger setup by injection did not finalize"
		}
		relabelPanic(r, "C31")
		return r.finish(false, nil)
	}
	// 2. the big spends: every input signed by all of its keys
	bigs := make([]*common.VersionedTransaction, nTx)
	for i := 0; i < nTx; i++ {
		wg.Add(1)
		sem <- struct{}{}
		go func(i int) {
			defer wg.Done()
			defer func() { <-sem }()
			tx := common.NewTransactionV5(fans[i].Asset)
			for o := 0; o < nIn; o++ {
				tx.AddInput(fans[i].PayloadHash(), uint(o))
			}
			sh := crypto.Blake3Hash([]byte(fmt.Sprintf("c31big%d", i)))
			tx.AddScriptOutput([]*common.Address{c.User(1)}, common.NewThresholdScript(1), common.NewInteger(uint64(nIn)), append(sh[:], sh[:]...))
			signed := &common.SignedTransaction{Transaction: *tx}
			for o := 0; o < nIn; o++ {
				if err := signed.SignUTXO(storerigUTXO(fans[i], o), accounts); err != nil {
					panic(err)
				}
			}
			bigs[i] = signed.AsVersioned()
		}(i)
	}
	wg.Wait()
	signedTotal, payloadTotal := 0, 0
	for _, b := range bigs {
		signedTotal += len(b.Marshal())
		payloadTotal += len(b.PayloadMarshal())
	}
	// 3. admit them on one node within one queue cycle
	target := r.node(int(p.P("target", 0)))
	spread := time.Duration(p.P("spread_ms", 300)) * time.Millisecond
	admitted := 0
	for i, b := range bigs {
		if c.Halt {
			break
		}
		if quick {
			// unauthenticated peer bundle straight into the cache queue (one validation pass less)
			c.Inject(c.External(), target, buildTxBundle([]*common.VersionedTransaction{b}, false), 0)
			admitted++
		} else if _, err := c.Submit(target, b); err == nil {
			admitted++
			r.accepted = append(r.accepted, b.PayloadHash())
		} else {
			c.Trace.Logf(c.Q.Now, "big %d rejected: %v", i, err)
		}
		c.Run(c.Q.Now + spread/time.Duration(len(bigs)))
	}
	fin := 0
	if p.P("stop_after_proposal", 0) == 1 {
		// run until the proposer has sent its challenges (or 30 s)
		deadline := c.Q.Now + 30*time.Second
		for !c.Halt && c.Q.Now < deadline && mon.challenges == 0 {
			c.Run(c.Q.Now + 200*time.Millisecond)
		}
		if !c.Halt {
			c.Run(c.Q.Now + 300*time.Millisecond)
		}
	} else {
		if !c.Halt {
			c.Run(c.Q.Now + 20*time.Second)
		}
		if !c.Halt {
			fin, _ = r.settle(60*time.Second, false)
		}
	}
	r.out.Probes["big_transactions_admitted"] += admitted
	r.out.Probes["big_transactions_finalized"] += fin
	r.out.Probes["frames_measured"] += mon.frames
	r.out.Probes["bundle_frames"] += mon.bundles
	if mon.maxSeen > p2p.TransportMessageMaxSize/2 {
		r.out.Probes["runs_with_a_frame_above_half_the_limit"]++
	}
	r.out.Probes["signed_bytes_offered"] += signedTotal
	r.out.Probes["payload_bytes_offered"] += payloadTotal
	relabelPanic(r, "C31")
	return r.finish(admitted > 1 && mon.bundles > 0, map[string]any{"txs": nTx, "inputs": nIn, "keys": nKeys, "admitted": admitted, "finalized": fin, "max_frame": mon.maxSeen, "max_txs_in_frame": mon.maxTxs, "signed_total": signedTotal, "payload_total": payloadTotal, "max_frame_to_payload_ratio": mon.maxRatio})
}

// c31Storage: storage transactions (XIN, one-key fffe40 output paying for the extra) whose SIGNED size
// is the maximum transaction size or just below it, admitted on one node within one queue cycle. The
// batcher must close its batches so that bundle and challenge frames, with their framing, fit.
func c31Storage(r *crun, p *harness.Plan, mon *c31Mon, inj *injector, quick bool, targetIdx int) *harness.Outcome {
	c := r.c
	rng := core.NewRng(core.SplitMix64(p.Seed ^ 0x5707))
	nTx := int(p.P("txs", 10))
	target := c.Nodes[targetIdx]
	chain := 0
	var setup []*injected
	coins := make([]*cluster.Coin, nTx)
	for i := 0; i < nTx; i++ {
		dep, coin := c.MakeDeposit(cluster.AssetXIN, common.NewIntegerFromString("1"), fmt.Sprintf("c31s-%d-%d", p.Seed%997, i), 0, []int{0}, 1)
		coins[i] = coin
		inj.now = c.NowNano()
		it, err := inj.nextWith(chain%inj.n, false, dep)
		chain++
		if err != nil {
			continue
		}
		for to := 0; to < inj.n; to++ {
			if quick && to != targetIdx {
				continue
			}
			inj.deliver(c.External(), c.Nodes[to], it.tx, it.snap, time.Duration(to)*time.Millisecond)
		}
		setup = append(setup, it)
		c.Run(c.Q.Now + 150*time.Millisecond)
	}
	ready := func() bool {
		for _, it := range setup {
			if quick {
				if !c.FinalizedOn(target, it.tx.PayloadHash()) {
					return false
				}
			} else if !c.FinalizedEverywhere(it.tx.PayloadHash()) {
				return false
			}
		}
		return len(setup) == nTx
	}
	for tries := 0; tries < 60 && !ready() && !c.Halt; tries++ {
		c.Run(c.Q.Now + time.Second)
	}
	if c.Halt || !ready() {
		if !c.Halt {
			r.out.ToolError = "ledger setup by injection did not finalize"
		}
		relabelPanic(r, "C31")
		return r.finish(false, nil)
	}
	max := 4 * 1024 * 1024
	build := func(i, extra int) *common.VersionedTransaction {
		tx := common.NewTransactionV5(common.XINAssetId)
		tx.AddInput(coins[i].Tx, coins[i].Index)
		sh := crypto.Blake3Hash([]byte(fmt.Sprintf("c31store%d", i)))
		tx.AddScriptOutput([]*common.Address{c.User(1)}, common.NewThresholdScript(64), coins[i].Amount, append(sh[:], sh[:]...))
		tx.Extra = make([]byte, extra)
		rng.Bytes(tx.Extra[:64])
		signed := &common.SignedTransaction{Transaction: *tx}
		if err := signed.SignUTXO(coins[i].UTXO, []*common.Address{c.User(0)}); err != nil {
			panic(err)
		}
		return signed.AsVersioned()
	}
	var bigs []*common.VersionedTransaction
	signedTotal, exact := 0, 0
	for i := 0; i < nTx; i++ {
		want := max
		if !rng.Chance(float64(p.P("exact_ppm", 600000)) / 1e6) {
			want = max - 1 - rng.IntN(200000)
		}
		probe := build(i, max-4096)
		extra := max - 4096 + (want - len(probe.Marshal()))
		tx := build(i, extra)
		if d := want - len(tx.Marshal()); d != 0 {
			tx = build(i, extra+d)
		}
		if len(tx.Marshal()) == max {
			exact++
		}
		signedTotal += len(tx.Marshal())
		bigs = append(bigs, tx)
	}
	spread := time.Duration(p.P("spread_ms", 300)) * time.Millisecond
	admitted := 0
	for _, b := range bigs {
		if c.Halt {
			break
		}
		if quick {
			c.Inject(c.External(), target, buildTxBundle([]*common.VersionedTransaction{b}, false), 0)
			admitted++
		} else if _, err := c.Submit(target, b); err == nil {
			admitted++
			r.accepted = append(r.accepted, b.PayloadHash())
		}
		c.Run(c.Q.Now + spread/time.Duration(len(bigs)))
	}
	fin := 0
	if quick {
		deadline := c.Q.Now + 30*time.Second
		for !c.Halt && c.Q.Now < deadline && mon.challenges == 0 {
			c.Run(c.Q.Now + 200*time.Millisecond)
		}
		if !c.Halt {
			c.Run(c.Q.Now + 2*time.Second)
		}
	} else {
		if !c.Halt {
			c.Run(c.Q.Now + 20*time.Second)
		}
		if !c.Halt {
			fin, _ = r.settle(60*time.Second, false)
		}
	}
	r.out.Probes["storage_transactions_admitted"] += admitted
	r.out.Probes["storage_transactions_of_exactly_the_maximum_size"] += exact
	r.out.Probes["big_transactions_finalized"] += fin
	r.out.Probes["frames_measured"] += mon.frames
	r.out.Probes["bundle_frames"] += mon.bundles
	if mon.maxSeen > p2p.TransportMessageMaxSize/2 {
		r.out.Probes["runs_with_a_frame_above_half_the_limit"]++
	}
	r.out.Probes["signed_bytes_offered"] += signedTotal
	relabelPanic(r, "C31")
	return r.finish(admitted > 1 && mon.bundles > 0, map[string]any{"mode": "storage", "txs": nTx, "exactly_max": exact, "admitted": admitted, "finalized": fin, "max_frame": mon.maxSeen, "max_txs_in_frame": mon.maxTxs, "signed_total": signedTotal})
}

func storerigUTXO(ver *common.VersionedTransaction, i int) *common.UTXO {
	out := ver.Outputs[i]
	return &common.UTXO{
		Input:  common.Input{Hash: ver.PayloadHash(), Index: uint(i)},
		Output: common.Output{Type: out.Type, Amount: out.Amount, Keys: out.Keys, Script: out.Script, Mask: out.Mask},
		Asset:  ver.Asset,
	}
}

func init() {
	harness.Register(&harness.Property{
		ID:    "C31",
		Level: "exploration",
		Rule: "per run 34-36 (thorough up to 100) admissible transactions with 256 (thorough also 100-149) inputs of 64-of-64 outputs, every input carrying 64 valid signatures (about 1 MiB signed vs 10 KiB payload each, more than 32 MiB signed in total), are admitted on one node within one queue cycle so that the real batcher forms its batches; the spent ledger is injected; every frame any node hands to the transport is measured and bundle-carrying frames are parsed back; " +
			"non-trivial = at least two big transactions admitted and one bundle frame observed; distinct = canonical-log digests. Expensive (half a million signatures per run): few runs per tier.",
		Components: clusterComponents,
		Assume:     append([]string{"QUIC stream framing (Send / receiveWithLimit) is a stub: only the size rule it enforces is applied at the seam"}, clusterAssume...),
		Gen:        c31Gen,
		Exec:       c31Exec,
		MaxWorkers: 2, WorkerProcs: 8,
		QuickRuns: 2, ThoroughRuns: 12,
		QuickWall: 200 * time.Second, ThoroughWall: 25 * time.Minute,
	})
}
