package props

import (
	"fmt"
	"time"

	"verifsim/cluster"
	"verifsim/core"
	"verifsim/harness"

	"github.com/MixinNetwork/mixin/common"
	"github.com/MixinNetwork/mixin/crypto"
)

// C09 — a snapshot is final only with a threshold certificate from
// historical keys.
//
// R1 with finalization injection: all ledger history of the run is
// manufactured by the simulator (it holds every key) and delivered through
// the ordinary finalized-bundle + finalization messages. For every payload a
// family of certificates is produced: honest >= threshold; sub-threshold;
// mask naming a position outside the key vector; signature over another
// hash; aggregate built with one wrong key; flipped mask / signature bits;
// payload changed under an unchanged certificate. Variants are delivered
// 1-3 times each, interleaved, in random order, to every node, before and
// after restarts (cold memo cache). Oracle: an independent verifier (point
// addition + crypto/ed25519) judges every snapshot any node writes; invalid
// payload variants must never be written; every valid snapshot must be
// written on every node once faults stop (a remembered verdict never blocks
// a valid certificate); the signer list recorded with the snapshot must be
// the masked members.

type c09Mon struct {
	cluster.BaseMonitor
	r        *crun
	inj      *injector
	written  map[crypto.Hash]map[int]bool
	invalid  map[crypto.Hash]string // payload hashes that only exist with invalid certificates
	verified int
}

func (m *c09Mon) AfterStore(n *cluster.SNode, call *cluster.StoreCall) {
	if call.Name != "WriteSnapshot" || call.Err != nil {
		return
	}
	snap := snapArg(call).Snapshot
	signers := call.Args[1].([]crypto.Hash)
	c := m.r.c
	keys := m.inj.publicKeys()
	ok, why, positions := verifyCertificate(keys, m.inj.threshold(), snap)
	m.verified++
	m.r.out.Evals++
	if !ok {
		c.Violate("C09", "snapshot-written-without-valid-certificate", fmt.Sprintf("n%d wrote snapshot %s of chain %s round %d: %s (mask %x)", n.Idx, snap.PayloadHash().String()[:8], snap.NodeId.String()[:8], snap.RoundNumber, why, snap.Signature.Mask), n)
		return
	}
	h := snap.PayloadHash()
	if why, bad := m.invalid[h]; bad {
		c.Violate("C09", "tampered-payload-written", fmt.Sprintf("n%d wrote payload variant %s (%s)", n.Idx, h.String()[:8], why), n)
		return
	}
	if len(signers) != len(positions) {
		c.Violate("C09", "recorded-signers-differ-from-mask", fmt.Sprintf("%d signers recorded for %d mask bits", len(signers), len(positions)), n)
		return
	}
	for i, p := range positions {
		if signers[i] != c.Nodes[m.inj.order[p]].Id {
			c.Violate("C09", "recorded-signers-differ-from-mask", fmt.Sprintf("signer %d recorded as %s, mask position %d is %s", i, signers[i].String()[:8], p, c.Nodes[m.inj.order[p]].Id.String()[:8]), n)
			return
		}
	}
	if m.written[h] == nil {
		m.written[h] = map[int]bool{}
	}
	m.written[h][n.Idx] = true
}

func c09Gen(rng *core.Rng, tier string) *harness.Plan {
	p := &harness.Plan{Seed: rng.Uint64(), Params: map[string]int64{}}
	if rng.Chance(0.4) {
		c09MemGen(rng, tier, p) // changing membership on the membership rig, see c09mem.go
		return p
	}
	p.Params["nodes"] = 7
	if rng.Chance(0.3) {
		p.Params["nodes"] = int64(8 + rng.IntN(2))
	}
	// keep membership unambiguous: with more than 7 nodes stay outside the
	// node-operation window (hours 13-19), see DESIGN.md
	hour := int64(rng.IntN(24))
	if p.Params["nodes"] > 7 {
		hour = []int64{0, 1, 2, 3, 4, 5, 6, 7, 8, 9, 10, 21, 22, 23}[rng.IntN(14)]
	}
	p.Params["start_s"] = hour*3600 + int64(60+rng.IntN(3000))
	if rng.Chance(0.5) {
		p.Params["dup_ppm"] = int64(rng.IntN(200000))
	}
	if rng.Chance(0.4) {
		p.Params["reorder_ppm"] = int64(rng.IntN(300000))
	}
	p.Params["maxlat_ms"] = int64(5 + rng.IntN(150))
	count := 12 + rng.IntN(20)
	if tier == "thorough" {
		count = 30 + rng.IntN(60)
	}
	at := int64(2 * time.Second / time.Microsecond)
	for i := 0; i < count; i++ {
		at += int64(rng.Dur(100*time.Millisecond, 2500*time.Millisecond) / time.Microsecond)
		nr := int64(0)
		if rng.Chance(0.3) {
			nr = 1
		}
		p.Ops = append(p.Ops, harness.Op{At: at, Kind: "inject", N: rng.IntN(9), B: nr, C: int64(rng.Uint64() >> 1), S: fmt.Sprint("j", i)})
		if rng.Chance(0.12) {
			p.Ops = append(p.Ops, harness.Op{At: at + int64(rng.Dur(0, 2*time.Second)/time.Microsecond), Kind: "crash", N: rng.IntN(9), A: int64(200 + rng.IntN(3000))})
		}
	}
	p.Params["dur_ms"] = at/1000 + 3000
	return p
}

func c09Exec(p *harness.Plan) *harness.Outcome {
	if p.P("mem", 0) == 1 {
		return c09MemExec(p)
	}
	r, err := newClusterRun("C09", p)
	if err != nil {
		o := harness.NewOutcome()
		o.ToolError = err.Error()
		return o
	}
	defer r.c.Close()
	c := r.c
	if err := c.Boot(); err != nil {
		r.out.ToolError = err.Error()
		return r.out
	}
	inj, err := newInjector(c, core.NewRng(core.SplitMix64(p.Seed^0x109)))
	if err != nil {
		r.out.ToolError = err.Error()
		return r.out
	}
	mon := &c09Mon{r: r, inj: inj, written: map[crypto.Hash]map[int]bool{}, invalid: map[crypto.Hash]string{}}
	c.AddMonitor(mon)
	var valid []*injected
	variantsSent := map[string]int{}
	r.extra["inject"] = func(op harness.Op, idx int) {
		inj.now = c.NowNano()
		it, err := inj.next(op.N, op.B == 1)
		if err != nil {
			r.out.Probes["inject_skipped"]++
			return
		}
		valid = append(valid, it)
		vr := core.NewRng(uint64(op.C))
		type variant struct {
			name string
			snap *common.Snapshot
		}
		vs := []variant{{"valid", it.snap}}
		base := it.snap
		T := inj.threshold()
		mk := func(name string, f func(s *common.Snapshot)) {
			s := copySnapshot(base)
			f(s)
			vs = append(vs, variant{name, s})
		}
		if vr.Chance(0.6) {
			mk("sub-threshold", func(s *common.Snapshot) {
				pos := inj.randomSigners(T - 1)
				s.Signature = &crypto.CosiSignature{Signature: inj.sign(pos, s.Hash, -1), Mask: maskOf(pos)}
			})
		}
		if vr.Chance(0.4) {
			mk("mask-out-of-range", func(s *common.Snapshot) {
				s.Signature.Mask |= 1 << uint(inj.n+vr.IntN(64-inj.n))
			})
		}
		if vr.Chance(0.4) {
			mk("signature-over-other-hash", func(s *common.Snapshot) {
				pos := inj.randomSigners(T)
				other := crypto.Blake3Hash(s.Hash[:])
				s.Signature = &crypto.CosiSignature{Signature: inj.sign(pos, other, -1), Mask: maskOf(pos)}
			})
		}
		if vr.Chance(0.4) {
			mk("one-wrong-key", func(s *common.Snapshot) {
				pos := inj.randomSigners(T)
				s.Signature = &crypto.CosiSignature{Signature: inj.sign(pos, s.Hash, pos[vr.IntN(len(pos))]), Mask: maskOf(pos)}
			})
		}
		if vr.Chance(0.4) {
			mk("mask-bit-flipped", func(s *common.Snapshot) {
				s.Signature.Mask ^= 1 << uint(vr.IntN(inj.n))
			})
		}
		if vr.Chance(0.3) {
			mk("signature-bit-flipped", func(s *common.Snapshot) {
				s.Signature.Signature[vr.IntN(64)] ^= 1 << uint(vr.IntN(8))
			})
		}
		if vr.Chance(0.4) {
			mk("payload-changed", func(s *common.Snapshot) {
				s.Timestamp += uint64(1 + vr.IntN(1000))
				s.Hash = s.PayloadHash()
				mon.invalid[s.Hash] = "timestamp changed under an unchanged certificate"
			})
		}
		// delivery schedule: every variant 1-3 times to every node, shuffled
		type dl struct {
			v  variant
			to int
		}
		var ds []dl
		for _, v := range vs {
			reps := 1 + vr.IntN(3)
			for k := 0; k < reps; k++ {
				for to := 0; to < inj.n; to++ {
					ds = append(ds, dl{v, to})
				}
			}
			variantsSent[v.name] += reps
		}
		vr.Shuffle(len(ds), func(i, j int) { ds[i], ds[j] = ds[j], ds[i] })
		for k, d := range ds {
			from := c.External()
			delay := time.Duration(k)*3*time.Millisecond + vr.Dur(0, 40*time.Millisecond)
			// the body always travels ahead of the finalization: a node that
			// misses a body asks the chain owner for it and then queues and
			// proposes it itself, and an honest owner choosing its own
			// references concurrently with injected history on its chain is
			// not a situation a real network can produce
			inj.deliver(from, c.Nodes[d.to], it.tx, d.v.snap, delay)
		}
		c.Trace.Logf(c.Q.Now, "inject chain %s r%d ts%d variants=%d", it.chain.id.String()[:6], it.snap.RoundNumber, it.snap.Timestamp, len(vs))
	}
	r.schedule()
	c.Run(time.Duration(p.P("dur_ms", 30000)) * time.Millisecond)
	applied, missing := 0, 0
	var firstMissing string
	r.settled = func() bool {
		for _, it := range valid {
			if !c.FinalizedEverywhere(it.tx.PayloadHash()) {
				return false
			}
		}
		return true
	}
	if !c.Halt {
		r.settle(150*time.Second, false)
	}
	if !c.Halt {
		for _, it := range valid {
			all := true
			for i := 0; i < inj.n; i++ {
				if !c.FinalizedOn(c.Nodes[i], it.tx.PayloadHash()) {
					all = false
					if firstMissing == "" {
						firstMissing = fmt.Sprintf("snapshot %s of chain %s round %d (ts %d) not applied on n%d", it.snap.Hash.String()[:8], it.chain.id.String()[:8], it.snap.RoundNumber, it.snap.Timestamp, i)
					}
				}
			}
			if all {
				applied++
			} else {
				missing++
			}
		}
		if missing > 0 {
			c.Violate("C09", "valid-certificate-not-accepted", fmt.Sprintf("%d of %d valid finalized snapshots were not applied everywhere after the fault-free window; first: %s", missing, len(valid), firstMissing), nil)
		}
	}
	r.out.Probes["valid_injected"] += len(valid)
	r.out.Probes["valid_applied_everywhere"] += applied
	r.out.Probes["writes_verified"] += mon.verified
	for k, v := range variantsSent {
		r.out.Faults["byz.certificate."+k] += v
	}
	relabelPanic(r, "C09")
	return r.finish(mon.verified > 0 && len(variantsSent) > 1, map[string]any{"injected": len(valid), "applied": applied, "writes_verified": mon.verified, "variants": variantsSent})
}

func init() {
	harness.Register(&harness.Property{
		ID:    "C09",
		Level: "exploration",
		Rule: "seeded cluster runs (7-9 real nodes) whose whole history is injected: 12-31 (thorough 30-89) payloads per run on random chains incl. new rounds, each with a family of certificate variants (valid >= threshold with random signer sets; sub-threshold; out-of-range mask bit; signature over another hash; one wrong key in the aggregate; flipped mask/signature bit; changed payload under the same certificate), each variant delivered 1-3 times to every node in shuffled order with duplication/reordering and restarts; every WriteSnapshot on every node is judged by an independent verifier; " +
			"40% of the runs are membership-rig histories in which the key set changes (pledge, acceptance + 12 h readiness, removal): every snapshot applied outside the node-operation window is judged against the rig's own membership model (threshold over the members accepted more than an hour ago, whether or not they may sign yet), and around every change forged certificates are offered (below threshold, exactly the threshold of the signing members only, wrong key, flipped mask bit, complete and correct for the key vector of another instant); the first run of every batch and 40% of the membership runs end in the race at the close of the node-operation window (ten members; a removal in the last seconds of the window reaches one node late; a snapshot stamped just after the window and certified by the vector before the removal is verified and queued by that node's transport loop first, its chain loop looks at it only after the removal has been applied, with the same threshold before and after); " +
			"non-trivial = at least one verified write and one invalid variant delivered; distinct = canonical-log digests. In the cluster part membership is static per run (genesis members; runs with more than 7 nodes stay outside the node-operation window).",
		Components: clusterComponents,
		Assume:     clusterAssume,
		Gen:        c09Gen,
		Directed:   c09Directed,
		Exec:       c09Exec,
		QuickRuns:  64, ThoroughRuns: 3000,
		QuickWall: 45 * time.Second, ThoroughWall: 12 * time.Minute,
	})
}
