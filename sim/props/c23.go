package props

import (
	"fmt"
	"time"

	"verifsim/core"
	"verifsim/harness"
	"verifsim/storerig"

	"github.com/MixinNetwork/mixin/common"
	"github.com/MixinNetwork/mixin/crypto"
)

// C23 — only queueing makes a cached transaction eligible for proposal.
//
// Rig R3: simulated clients issue queue / store / retrieve(limit) / remove /
// get over a small overlapping transaction set with differently signed
// bodies of one payload; clean restart and cache-lost restart are generated
// operations. Oracle: a credit model written from the property statement
// (upper bound of unconsumed queueings, lower bound of guaranteed
// eligibility), not from the key layout of the implementation.

func c23Txs(f *storerig.Fix, payloads, variants int) [][]*common.VersionedTransaction {
	out := make([][]*common.VersionedTransaction, payloads)
	for p := 0; p < payloads; p++ {
		base := f.MakeDeposit(common.BitcoinAssetId, common.BitcoinAssetId, "c6d0c728", common.NewInteger(uint64(p+1)), fmt.Sprintf("c23-%d", p), 0, 0)
		for v := 0; v < variants; v++ {
			cp := *base
			signed := cp.SignedTransaction
			key := crypto.NewKeyFromSeed(append(make([]byte, 63), byte(v+1)))
			sig := key.Sign(base.PayloadHash())
			signed.SignaturesMap = []map[uint16]*crypto.Signature{{0: &sig}}
			out[p] = append(out[p], signed.AsVersioned())
		}
	}
	return out
}

func c23Gen(rng *core.Rng, tier string) *harness.Plan {
	p := &harness.Plan{Seed: rng.Uint64(), Params: map[string]int64{}}
	payloads := 2 + rng.IntN(6)
	variants := 1 + rng.IntN(3)
	p.Params["payloads"] = int64(payloads)
	p.Params["variants"] = int64(variants)
	if rng.Chance(0.35) {
		// concurrent mode (rig R3c): rounds of overlapping cache calls, see c23conc.go
		p.Params["conc"] = 1
		p.Params["rounds"] = int64(5 + rng.IntN(8))
		if tier == "thorough" {
			p.Params["rounds"] = int64(8 + rng.IntN(30))
		}
		return p
	}
	n := 20 + rng.IntN(120)
	if tier == "thorough" {
		n = 50 + rng.IntN(400)
	}
	// swarm: per-run operation weights
	w := []int{1 + rng.IntN(6), 1 + rng.IntN(6), 1 + rng.IntN(6), rng.IntN(3), 1 + rng.IntN(3), rng.IntN(2), rng.IntN(2)}
	kinds := []string{"queue", "store", "retrieve", "remove", "get", "restart", "restart_lose"}
	total := 0
	for _, x := range w {
		total += x
	}
	for i := 0; i < n; i++ {
		r := rng.IntN(total)
		k := 0
		for ; r >= w[k]; k++ {
			r -= w[k]
		}
		op := harness.Op{Kind: kinds[k], N: rng.IntN(4)}
		switch kinds[k] {
		case "queue", "store":
			op.A, op.B = int64(rng.IntN(payloads)), int64(rng.IntN(variants))
		case "retrieve":
			op.A = int64(rng.IntN(payloads + 2))
			if rng.Chance(0.2) {
				op.A = 255
			}
		case "remove":
			op.A = int64(rng.IntN(payloads))
			op.B = int64(rng.IntN(payloads)) // second hash (may equal)
		case "get":
			op.A = int64(rng.IntN(payloads))
		}
		p.Ops = append(p.Ops, op)
	}
	return p
}

func c23Exec(p *harness.Plan) *harness.Outcome {
	if p.P("conc", 0) == 1 {
		return c23Conc(p)
	}
	out := harness.NewOutcome()
	f, err := storerig.NewFix(7)
	if err != nil {
		out.ToolError = err.Error()
		return out
	}
	defer f.Close()
	trace := core.NewTrace(100)
	payloads, variants := int(p.P("payloads", 3)), int(p.P("variants", 2))
	txs := c23Txs(f, payloads, variants)
	hashes := make([]crypto.Hash, payloads)
	index := map[crypto.Hash]int{}
	for i := range txs {
		hashes[i] = txs[i][0].PayloadHash()
		index[hashes[i]] = i
	}
	body := make([]bool, payloads)
	upper := make([]int, payloads) // unconsumed queueings (upper bound)
	lower := make([]bool, payloads)
	offered := make([]map[string]bool, payloads) // body encodings ever offered
	for i := range offered {
		offered[i] = map[string]bool{}
	}
	viol := func(sig, detail string) *harness.Outcome {
		out.Violation = &harness.Violation{Property: "C23", Signature: sig, Detail: detail}
		out.Digest = trace.Digest()
		out.LogTail = trace.Tail()
		return out
	}
	retrievals, returned := 0, 0
	for i, op := range p.Ops {
		now := time.Duration(i) * time.Millisecond
		switch op.Kind {
		case "queue":
			tx := txs[op.A%int64(payloads)][op.B%int64(variants)]
			a := int(op.A % int64(payloads))
			err := f.Store.CacheQueueTransaction(tx)
			trace.Logf(now, "c%d queue %d/%d err=%v", op.N, a, op.B, err != nil)
			if err != nil {
				return viol("queue-error", err.Error())
			}
			offered[a][string(tx.Marshal())] = true
			body[a] = true
			upper[a]++
			lower[a] = true
			out.Probes["queue"]++
		case "store":
			tx := txs[op.A%int64(payloads)][op.B%int64(variants)]
			a := int(op.A % int64(payloads))
			err := f.Store.CacheStoreTransaction(tx)
			trace.Logf(now, "c%d store %d/%d err=%v", op.N, a, op.B, err != nil)
			if err != nil {
				return viol("store-error", err.Error())
			}
			offered[a][string(tx.Marshal())] = true
			body[a] = true
			if upper[a] == 0 {
				out.Probes["store_without_queue"]++
			}
		case "retrieve":
			limit := int(op.A)
			got, err := f.Store.CacheRetrieveTransactions(limit)
			if err != nil {
				return viol("retrieve-error", err.Error())
			}
			retrievals++
			out.Evals++
			seen := map[int]bool{}
			ids := []int{}
			for _, tx := range got {
				a, ok := index[tx.PayloadHash()]
				if !ok {
					return viol("retrieve-unknown", "retrieval returned a transaction never offered")
				}
				ids = append(ids, a)
				if seen[a] {
					return viol("retrieve-duplicate", fmt.Sprintf("op %d: transaction %d returned twice by one retrieval", i, a))
				}
				seen[a] = true
				if upper[a] <= 0 {
					return viol("retrieve-not-queued", fmt.Sprintf("op %d: transaction %d returned without an unconsumed queueing", i, a))
				}
				if !body[a] {
					return viol("retrieve-no-body", fmt.Sprintf("op %d: transaction %d returned after its body was removed", i, a))
				}
				if !offered[a][string(tx.Marshal())] {
					return viol("retrieve-wrong-body", fmt.Sprintf("op %d: transaction %d body never offered", i, a))
				}
			}
			trace.Logf(now, "c%d retrieve %d -> %v", op.N, limit, ids)
			if len(got) > limit {
				return viol("retrieve-over-limit", fmt.Sprintf("op %d: %d > limit %d", i, len(got), limit))
			}
			possible := 0
			for a := range upper {
				if upper[a] > 0 && body[a] {
					possible++
				}
			}
			if limit >= possible {
				for a := range lower {
					if lower[a] && body[a] && !seen[a] {
						return viol("queued-not-retrieved", fmt.Sprintf("op %d: transaction %d queued (and body present) but not returned by retrieve(%d) with %d candidates", i, a, limit, possible))
					}
				}
			}
			for a := range seen {
				upper[a]--
				lower[a] = false
				returned++
			}
			if limit < possible {
				// which eligible ones were skipped is an implementation
				// choice; they stay possibly-eligible but no longer guaranteed
				// to be reported by a too-small next retrieval. (lower stays)
				out.Probes["retrieve_limited"]++
			}
		case "remove":
			a, b := int(op.A%int64(payloads)), int(op.B%int64(payloads))
			err := f.Store.CacheRemoveTransactions([]crypto.Hash{hashes[a], hashes[b]})
			trace.Logf(now, "c%d remove %d,%d err=%v", op.N, a, b, err != nil)
			if err != nil {
				return viol("remove-error", err.Error())
			}
			body[a], body[b] = false, false
			lower[a], lower[b] = false, false
			out.Probes["remove"]++
		case "get":
			a := int(op.A % int64(payloads))
			tx, err := f.Store.CacheGetTransaction(hashes[a])
			if err != nil {
				return viol("get-error", err.Error())
			}
			out.Evals++
			trace.Logf(now, "c%d get %d -> %v", op.N, a, tx != nil)
			if (tx != nil) != body[a] {
				return viol("get-mismatch", fmt.Sprintf("op %d: body of %d present=%v, model=%v", i, a, tx != nil, body[a]))
			}
			if tx != nil && (tx.PayloadHash() != hashes[a] || !offered[a][string(tx.Marshal())]) {
				return viol("get-wrong-body", fmt.Sprintf("op %d: wrong body for %d", i, a))
			}
		case "restart", "restart_lose":
			lose := op.Kind == "restart_lose"
			if err := f.Reopen(lose); err != nil {
				out.ToolError = err.Error()
				return out
			}
			trace.Logf(now, "restart lose=%v", lose)
			out.Faults[op.Kind]++
			if lose {
				for a := range body {
					body[a], lower[a], upper[a] = false, false, 0
				}
			}
		}
	}
	out.NonTrivial = retrievals > 0 && returned > 0
	out.Probes["retrievals"] += retrievals
	out.Probes["returned"] += returned
	out.SimSeconds = float64(len(p.Ops)) / 1000
	out.Digest = trace.Digest()
	out.Sample = map[string]any{"ops": len(p.Ops), "retrievals": retrievals, "returned": returned}
	return out
}

func init() {
	harness.Register(&harness.Property{
		ID:    "C23",
		Level: "exploration",
		Rule: "seeded operation sequences (queue/store/retrieve/remove/get/restart/cache-lost restart, per-run swarm weights) over 2-7 payloads x 1-3 signed variants from 4 interleaved clients; " +
			"Concurrent part (35% of the runs): 5-12 (thorough 8-37) rounds of 2-4 overlapping queue/store/retrieve/remove/get calls interleaved at Badger transaction boundaries by a seeded scheduler; each round must be linearizable against the credit model; " +
			"a run is non-trivial if at least one retrieval returned a transaction; distinct = distinct canonical-log digests among non-trivial runs",
		Components: map[string]string{"storage.BadgerStore cache API (real Badger on tmpfs)": "real", "kernel/p2p": "not involved", "power loss of the un-synced cache DB": "modelled by deleting the cache directory between close and reopen"},
		Assume:     []string{"A1 Badger commit atomic", "A3 (overlap finer than one Store call is equivalent to a serial order or ErrConflict) is assumed by the sequential part only; the concurrent part tests it at Badger-transaction granularity", "cache TTL (real time, 2h) never fires within a run"},
		Gen:        c23Gen,
		Exec:       c23Exec,
		QuickRuns:  400, ThoroughRuns: 20000,
		QuickWall: 40 * time.Second, ThoroughWall: 8 * time.Minute,
	})
}
