package props

import (
	"crypto/ed25519"
	"fmt"
	"sort"
	"time"

	"filippo.io/edwards25519"

	"verifsim/cluster"
	"verifsim/core"

	"github.com/MixinNetwork/mixin/common"
	"github.com/MixinNetwork/mixin/config"
	"github.com/MixinNetwork/mixin/crypto"
)

// injector manufactures finalized history ("finalization injection"): the
// simulator holds every node's private key, so it can build snapshots with
// valid or deliberately invalid quorum certificates and deliver them through
// the ordinary finalized-bundle + finalization messages (the path a syncing
// node uses). It keeps its own model of every chain's round structure.

type injChain struct {
	id       crypto.Hash
	number   uint64
	refs     *common.RoundLink
	snaps    []*common.SnapshotWithTopologicalOrder // head round, applied or to be applied in order
	closed   map[uint64]crypto.Hash                 // final hash per closed round
	links    map[crypto.Hash]uint64                 // external links (by chain id)
	lastTime uint64
}

type injector struct {
	c      *cluster.Cluster
	rng    *core.Rng
	n      int
	order  []int // consensus index -> node idx
	chains []*injChain
	byID   map[crypto.Hash]*injChain
	seq    int
	now    uint64
	// certFn, when set, certifies snapshots from a dynamic membership view
	// instead of the static genesis key vector.
	certFn func(s *common.Snapshot) *crypto.CosiSignature
	// forceExternal, when set, is the external reference of the next round opened.
	forceExternal *extRef
}

func newInjector(c *cluster.Cluster, rng *core.Rng) (*injector, error) {
	n := c.Cfg.Nodes
	inj := &injector{c: c, rng: rng, n: n, byID: map[crypto.Hash]*injChain{}}
	for i := 0; i < n; i++ {
		inj.order = append(inj.order, i)
	}
	// consensus positions: accepted nodes ordered by (accept time, id text);
	// all genesis nodes share the accept time
	sort.Slice(inj.order, func(a, b int) bool { return c.Nodes[inj.order[a]].Id.String() < c.Nodes[inj.order[b]].Id.String() })
	ref := c.Nodes[0]
	for i := 0; i < n; i++ {
		id := c.Nodes[i].Id
		head, err := ref.Store.ReadRound(id)
		if err != nil || head == nil {
			return nil, fmt.Errorf("no head round for chain %d: %v", i, err)
		}
		ch := &injChain{id: id, number: head.Number, refs: head.References.Copy(), closed: map[uint64]crypto.Hash{}, links: map[crypto.Hash]uint64{}}
		for r := uint64(0); r < head.Number; r++ {
			snaps, err := ref.Store.ReadSnapshotsForNodeRound(id, r)
			if err != nil || len(snaps) == 0 {
				return nil, fmt.Errorf("closed round unreadable")
			}
			_, h := roundHashRef(id, r, snaps)
			ch.closed[r] = h
			for _, s := range snaps {
				if s.Timestamp > ch.lastTime {
					ch.lastTime = s.Timestamp
				}
			}
		}
		inj.chains = append(inj.chains, ch)
		inj.byID[id] = ch
	}
	return inj, nil
}

// chainFor returns (creating from the reference node's store if needed) the
// model of a chain that is not a genesis chain.
func (inj *injector) chainFor(id crypto.Hash) *injChain {
	if ch := inj.byID[id]; ch != nil {
		return ch
	}
	ref := inj.c.Nodes[0]
	for _, n := range inj.c.Nodes[:inj.n] {
		if n.Alive {
			ref = n
			break
		}
	}
	if !ref.Alive {
		return nil
	}
	head, err := ref.Store.ReadRound(id)
	if err != nil || head == nil {
		return nil
	}
	ch := &injChain{id: id, number: head.Number, refs: head.References.Copy(), closed: map[uint64]crypto.Hash{}, links: map[crypto.Hash]uint64{}}
	for r := uint64(0); r < head.Number; r++ {
		snaps, err := ref.Store.ReadSnapshotsForNodeRound(id, r)
		if err != nil || len(snaps) == 0 {
			return nil
		}
		_, h := roundHashRef(id, r, snaps)
		ch.closed[r] = h
		for _, s := range snaps {
			if s.Timestamp > ch.lastTime {
				ch.lastTime = s.Timestamp
			}
		}
	}
	for _, o := range inj.chains {
		if l, err := ref.Store.ReadLink(id, o.id); err == nil {
			ch.links[o.id] = l
		}
	}
	if snaps, err := ref.Store.ReadSnapshotsForNodeRound(id, head.Number); err == nil {
		ch.snaps = snaps
		for _, s := range snaps {
			if s.Timestamp > ch.lastTime {
				ch.lastTime = s.Timestamp
			}
		}
	}
	inj.chains = append(inj.chains, ch)
	inj.byID[id] = ch
	return ch
}

func (inj *injector) chainIndex(id crypto.Hash) int {
	for i, ch := range inj.chains {
		if ch.id == id {
			return i
		}
	}
	return -1
}

func (inj *injector) threshold() int { return inj.n*2/3 + 1 }

// publicKeys returns the consensus key vector (model) in consensus order.
func (inj *injector) publicKeys() []*crypto.Key {
	out := make([]*crypto.Key, inj.n)
	for pos, idx := range inj.order {
		k := inj.c.Nodes[idx].Signer.PublicSpendKey
		out[pos] = &k
	}
	return out
}

// sign builds the aggregate Schnorr signature of the given consensus
// positions over msg: the sum of the private scalars signs as one key.
func (inj *injector) sign(positions []int, msg crypto.Hash, corrupt int) crypto.Signature {
	sum := edwards25519.NewScalar()
	for _, pos := range positions {
		priv := inj.c.Nodes[inj.order[pos]].Signer.PrivateSpendKey
		if pos == corrupt {
			priv = crypto.NewKeyFromSeed(append(make([]byte, 63), byte(pos+1)))
		}
		s, err := edwards25519.NewScalar().SetCanonicalBytes(priv[:])
		if err != nil {
			panic(err)
		}
		sum.Add(sum, s)
	}
	var agg crypto.Key
	copy(agg[:], sum.Bytes())
	return agg.Sign(msg)
}

func maskOf(positions []int) uint64 {
	var m uint64
	for _, p := range positions {
		m |= 1 << uint(p)
	}
	return m
}

// verifyCertificate is the independent verifier: mask within the key vector,
// at least the threshold of signers, aggregate key by direct point addition,
// standard Ed25519 verification equation over the recomputed payload hash.
func verifyCertificate(keys []*crypto.Key, threshold int, s *common.Snapshot) (ok bool, why string, positions []int) {
	if s.Signature == nil {
		return false, "no signature", nil
	}
	for i := 0; i < 64; i++ {
		if s.Signature.Mask&(1<<uint(i)) != 0 {
			if i >= len(keys) {
				return false, fmt.Sprintf("mask names position %d outside the %d-key vector", i, len(keys)), nil
			}
			positions = append(positions, i)
		}
	}
	if len(positions) < threshold {
		return false, fmt.Sprintf("%d signers below threshold %d", len(positions), threshold), positions
	}
	A := edwards25519.NewIdentityPoint()
	for _, p := range positions {
		pt, err := new(edwards25519.Point).SetBytes(keys[p][:])
		if err != nil {
			return false, "bad key", positions
		}
		A.Add(A, pt)
	}
	msg := s.PayloadHash()
	if !ed25519.Verify(ed25519.PublicKey(A.Bytes()), msg[:], s.Signature.Signature[:]) {
		return false, "aggregate signature does not verify over the payload hash", positions
	}
	return true, "", positions
}

// randomSigners picks k distinct consensus positions.
func (inj *injector) randomSigners(k int) []int {
	perm := inj.rng.Perm(inj.n)
	out := append([]int{}, perm[:k]...)
	sort.Ints(out)
	return out
}

// signersFor picks k distinct consensus positions that include the chain's own
// node: an honest proposer always takes part in its own certificate, and honest
// verifiers only answer challenges of such proposals, so these are the
// certificates a network with fewer than a third Byzantine members can produce.
func (inj *injector) signersFor(owner crypto.Hash, k int) []int {
	own := -1
	for pos, idx := range inj.order {
		if inj.c.Nodes[idx].Id == owner {
			own = pos
		}
	}
	out := inj.randomSigners(k)
	if own < 0 {
		return out
	}
	for _, p := range out {
		if p == own {
			return out
		}
	}
	out[inj.rng.IntN(len(out))] = own
	sort.Ints(out)
	return out
}

type injected struct {
	snap    *common.Snapshot // with a valid certificate
	tx      *common.VersionedTransaction
	extra   []*common.VersionedTransaction // further members of a multi-transaction snapshot
	chain   *injChain
	applied map[int]bool
}

// next builds the next valid snapshot of a chain holding one fresh deposit.
func (inj *injector) next(chainIdx int, newRound bool) (*injected, error) {
	return inj.nextWith(chainIdx, newRound, nil)
}

// nextWith is next for a caller-provided transaction (nil: a fresh deposit).
func (inj *injector) nextWith(chainIdx int, newRound bool, tx *common.VersionedTransaction) (*injected, error) {
	ch := inj.chains[chainIdx%len(inj.chains)]
	inj.seq++
	if tx == nil {
		tx, _ = inj.c.MakeDeposit(cluster.AssetBTC, common.NewIntegerFromString("0.5"), fmt.Sprintf("inj-%d", inj.seq), 0, []int{0}, 1)
	}
	gap := config.SnapshotRoundGap
	var start, end uint64
	for i, s := range ch.snaps {
		if i == 0 || s.Timestamp < start {
			start = s.Timestamp
		}
		if s.Timestamp > end {
			end = s.Timestamp
		}
	}
	ts := inj.now
	if ts <= ch.lastTime {
		ts = ch.lastTime + uint64(time.Millisecond)
	}
	if len(ch.snaps) > 0 && (newRound || ts >= start+gap || ts/uint64(24*time.Hour) != start/uint64(24*time.Hour)) {
		// close the head round and open the next one
		_, final := roundHashRef(ch.id, ch.number, ch.snaps)
		ext := inj.pickExternal(ch)
		if inj.forceExternal != nil {
			ext = inj.forceExternal
		}
		if ext == nil {
			return nil, fmt.Errorf("no external round available")
		}
		ch.closed[ch.number] = final
		ch.number++
		ch.refs = &common.RoundLink{Self: final, External: ext.hash}
		ch.links[ext.chain] = ext.number
		ch.snaps = nil
		if ts < start+gap+1 {
			ts = start + gap + 1
		}
	}
	if ts <= ch.lastTime {
		ts = ch.lastTime + 1
	}
	s := &common.Snapshot{
		Version:     common.SnapshotVersionCommonEncoding,
		NodeId:      ch.id,
		RoundNumber: ch.number,
		References:  ch.refs.Copy(),
		Timestamp:   ts,
	}
	s.AddTransaction(tx.PayloadHash())
	s.Hash = s.PayloadHash()
	if inj.certFn != nil {
		s.Signature = inj.certFn(s)
		if s.Signature == nil {
			return nil, fmt.Errorf("no certificate possible")
		}
	} else {
		k := inj.threshold() + inj.rng.IntN(inj.n-inj.threshold()+1)
		pos := inj.signersFor(ch.id, k)
		sig := inj.sign(pos, s.Hash, -1)
		s.Signature = &crypto.CosiSignature{Signature: sig, Mask: maskOf(pos)}
	}
	ch.snaps = append(ch.snaps, &common.SnapshotWithTopologicalOrder{Snapshot: s})
	ch.lastTime = ts
	return &injected{snap: s, tx: tx, chain: ch, applied: map[int]bool{}}, nil
}

type extRef struct {
	chain  crypto.Hash
	number uint64
	hash   crypto.Hash
}

// pickExternal chooses a closed round of another chain at or above the link.
func (inj *injector) pickExternal(ch *injChain) *extRef {
	var cands []*extRef
	for _, o := range inj.chains {
		if o.id == ch.id || o.number == 0 {
			continue
		}
		top := o.number - 1
		if top < ch.links[o.id] {
			continue
		}
		cands = append(cands, &extRef{o.id, top, o.closed[top]})
	}
	if len(cands) == 0 {
		return nil
	}
	return cands[inj.rng.IntN(len(cands))]
}

// deliver sends the transaction body and the finalization to a node as if
// relayed by `from`.
func (inj *injector) deliver(from, to *cluster.SNode, tx *common.VersionedTransaction, s *common.Snapshot, delay time.Duration) {
	if tx != nil {
		inj.c.Inject(from, to, buildTxBundle([]*common.VersionedTransaction{tx}, true), delay)
	}
	inj.c.Inject(from, to, buildFinalization(s), delay+time.Millisecond)
}

// place builds a validly certified snapshot of a chain with a caller-chosen
// round and timestamp (used to probe round-structure rules). When `commit`
// is true the injector's model adopts it as part of the head round.
func (inj *injector) place(ch *injChain, round, ts uint64, tx *common.VersionedTransaction, commit bool) *injected {
	if tx == nil {
		inj.seq++
		tx, _ = inj.c.MakeDeposit(cluster.AssetBTC, common.NewIntegerFromString("0.5"), fmt.Sprintf("inj-%d", inj.seq), 0, []int{0}, 1)
	}
	s := &common.Snapshot{
		Version:     common.SnapshotVersionCommonEncoding,
		NodeId:      ch.id,
		RoundNumber: round,
		References:  ch.refs.Copy(),
		Timestamp:   ts,
	}
	s.AddTransaction(tx.PayloadHash())
	s.Hash = s.PayloadHash()
	k := inj.threshold() + inj.rng.IntN(inj.n-inj.threshold()+1)
	pos := inj.signersFor(ch.id, k)
	s.Signature = &crypto.CosiSignature{Signature: inj.sign(pos, s.Hash, -1), Mask: maskOf(pos)}
	if commit {
		ch.snaps = append(ch.snaps, &common.SnapshotWithTopologicalOrder{Snapshot: s})
		if ts > ch.lastTime {
			ch.lastTime = ts
		}
	}
	return &injected{snap: s, tx: tx, chain: ch, applied: map[int]bool{}}
}

// span returns the earliest and latest timestamp of the model's head round.
func (ch *injChain) span() (start, end uint64) {
	for i, s := range ch.snaps {
		if i == 0 || s.Timestamp < start {
			start = s.Timestamp
		}
		if s.Timestamp > end {
			end = s.Timestamp
		}
	}
	return
}
