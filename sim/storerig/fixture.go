// Package storerig is rig R3: one real BadgerStore driven operation by
// operation (one Store call each) by simulated clients whose interleaving is
// a PRNG choice; clean restart and cache-lost restart are operations.
package storerig

import (
	"bytes"
	"fmt"
	"os"
	"sort"
	"time"

	"verifsim/cluster"

	"github.com/MixinNetwork/mixin/common"
	"github.com/MixinNetwork/mixin/config"
	"github.com/MixinNetwork/mixin/crypto"
	"github.com/MixinNetwork/mixin/storage"
)

type Fix struct {
	Dir       string
	Custom    *config.Custom
	Store     *storage.BadgerStore
	Gns       *common.Genesis
	NetworkId crypto.Hash
	Epoch     uint64
	Signers   []common.Address
	Payees    []common.Address
	NodeIds   []crypto.Hash
	Domain    common.Address
	NextTopo  uint64
	Restarts  int
	users     []*common.Address
}

// NewFix opens a fresh store and loads a genesis with `nodes` members.
func NewFix(nodes int) (*Fix, error) {
	dir, err := os.MkdirTemp("/dev/shm", "verifstore-")
	if err != nil {
		return nil, err
	}
	f := &Fix{Dir: dir}
	var custodians []common.Address
	for i := 0; i < nodes; i++ {
		f.Signers = append(f.Signers, cluster.Account(7, i, "SIGNER"))
		f.Payees = append(f.Payees, cluster.Account(7, i, "PAYEE"))
		custodians = append(custodians, cluster.Account(7, i, "CUSTODIAN"))
	}
	f.Domain = cluster.Account(7, 0, "DOMAIN")
	gns, _, err := cluster.BuildGenesis(f.Signers, f.Payees, custodians, f.Domain, cluster.GenesisEpoch)
	if err != nil {
		return nil, err
	}
	f.Gns = gns
	f.NetworkId = gns.NetworkId()
	f.Epoch = gns.EpochTimestamp()
	for _, s := range f.Signers {
		f.NodeIds = append(f.NodeIds, s.Hash().ForNetwork(f.NetworkId))
	}
	f.Custom = &config.Custom{}
	f.Custom.Node.CacheTTL = 7200
	if err := f.open(); err != nil {
		return nil, err
	}
	rounds, snapshots, transactions, err := gns.BuildSnapshots()
	if err != nil {
		return nil, err
	}
	if err := f.Store.LoadGenesis(rounds, snapshots, transactions); err != nil {
		return nil, err
	}
	f.NextTopo = uint64(len(snapshots))
	return f, nil
}

func (f *Fix) open() error {
	s, err := storage.NewBadgerStore(f.Custom, f.Dir)
	if err != nil {
		return err
	}
	f.Store = s
	return nil
}

// Reopen closes and reopens the store (clean restart); with loseCache the
// un-synced cache database directory is wiped first.
func (f *Fix) Reopen(loseCache bool) error {
	if err := f.Store.Close(); err != nil {
		return err
	}
	if loseCache {
		os.RemoveAll(f.Dir + "/cache")
	}
	f.Restarts++
	return f.open()
}

func (f *Fix) Close() {
	if f.Store != nil {
		f.Store.Close()
	}
	os.RemoveAll(f.Dir)
}

func (f *Fix) User(i int) *common.Address {
	for len(f.users) <= i {
		a := cluster.Account(11, len(f.users), "USER")
		f.users = append(f.users, &a)
	}
	return f.users[i]
}

// Head returns the head (cache) round record of a node chain.
func (f *Fix) Head(node int) *common.Round {
	r, err := f.Store.ReadRound(f.NodeIds[node])
	if err != nil || r == nil {
		panic(fmt.Sprintf("head round: %v", err))
	}
	return r
}

// Snapshot builds a snapshot of `node` in its current head round.
func (f *Fix) Snapshot(node int, ts uint64, txs []crypto.Hash) *common.SnapshotWithTopologicalOrder {
	head := f.Head(node)
	s := &common.Snapshot{
		Version:     common.SnapshotVersionCommonEncoding,
		NodeId:      f.NodeIds[node],
		RoundNumber: head.Number,
		References:  head.References,
		Timestamp:   ts,
	}
	sorted := append([]crypto.Hash{}, txs...)
	sort.Slice(sorted, func(i, j int) bool { return bytes.Compare(sorted[i][:], sorted[j][:]) < 0 })
	for _, h := range sorted {
		s.AddTransaction(h)
	}
	s.Signature = &crypto.CosiSignature{Mask: 1}
	s.Hash = s.PayloadHash()
	return &common.SnapshotWithTopologicalOrder{Snapshot: s, TopologicalOrder: f.NextTopo}
}

// Dump returns a sorted key->value rendering of the durable database.
func (f *Fix) Dump() map[string]string {
	kvs, err := f.Store.SimDumpGraph("", true)
	if err != nil {
		panic(err)
	}
	m := make(map[string]string, len(kvs))
	for _, kv := range kvs {
		m[string(kv.Key)] = string(kv.Value)
	}
	return m
}

func (f *Fix) DumpCache() map[string]string {
	kvs, err := f.Store.SimDumpCache("", true)
	if err != nil {
		panic(err)
	}
	m := make(map[string]string, len(kvs))
	for _, kv := range kvs {
		m[string(kv.Key)] = string(kv.Value)
	}
	return m
}

// DiffDumps lists keys that differ (added/removed/changed), by prefix class.
func DiffDumps(a, b map[string]string) (added, removed, changed []string) {
	for k, v := range b {
		if av, ok := a[k]; !ok {
			added = append(added, k)
		} else if av != v {
			changed = append(changed, k)
		}
	}
	for k := range a {
		if _, ok := b[k]; !ok {
			removed = append(removed, k)
		}
	}
	sort.Strings(added)
	sort.Strings(removed)
	sort.Strings(changed)
	return
}

// MakeDeposit builds a custodian-signed deposit.
func (f *Fix) MakeDeposit(assetId, chain crypto.Hash, assetKey string, amount common.Integer, extTx string, extIndex uint64, owner int) *common.VersionedTransaction {
	tx := common.NewTransactionV5(assetId)
	tx.AddDepositInput(&common.DepositData{Chain: chain, AssetKey: assetKey, Transaction: extTx, Index: extIndex, Amount: amount})
	sh := crypto.Blake3Hash([]byte(fmt.Sprintf("DEP%s%s%s%d%d", assetId, chain, extTx, extIndex, owner)))
	seed := append(sh[:], sh[:]...)
	tx.AddScriptOutput([]*common.Address{f.User(owner)}, common.NewThresholdScript(1), amount, seed)
	signed := &common.SignedTransaction{Transaction: *tx}
	if err := signed.SignRaw(f.Domain.PrivateSpendKey); err != nil {
		panic(err)
	}
	return Decoded(signed.AsVersioned())
}

// BaseTime is a timestamp comfortably after genesis.
func (f *Fix) BaseTime() uint64 { return f.Epoch + uint64(time.Hour) }

func KeyPrefix(k string) string {
	for i, c := range k {
		if c < 'A' || c > 'Z' {
			return k[:i]
		}
	}
	return k
}

// Decoded returns the transaction as a node holds it: decoded from its
// encoding, so that every key, hash and signature is an object of its own
// (values built in memory share pointers, which decoded ones never do).
func Decoded(ver *common.VersionedTransaction) (out *common.VersionedTransaction) {
	out = ver
	defer func() {
		if recover() != nil {
			out = ver
		}
	}()
	dec, err := common.UnmarshalVersionedTransaction(ver.Marshal())
	if err != nil || dec.PayloadHash() != ver.PayloadHash() {
		return ver
	}
	return dec
}
