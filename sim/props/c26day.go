package props

import (
	"fmt"
	"time"

	"verifsim/cluster"
	"verifsim/core"
	"verifsim/harness"

	"github.com/MixinNetwork/mixin/crypto"
)

// C26, work loops of different nodes at different distances behind their
// chains (cluster with injected history across a day change). The credits a
// snapshot earns are "for its day", and they feed the mint distribution, so
// every node must arrive at the same counters whatever the pace of its own
// work loop. Here the simulator manufactures a multi-chain history that runs
// over midnight; the work loops of most nodes follow closely (stepped after
// every few snapshots), the loops of one node (the laggard) get their first
// turn only after the day has changed and several further rounds exist. Once
// every loop has caught up, the counters of both days must be identical on
// all nodes (agreement oracle; no model of the crediting rule is needed).

func c26DayGen(rng *core.Rng, tier string, p *harness.Plan) {
	// GenesisEpoch is a UTC midnight; days are counted on absolute time
	before := 20 + rng.IntN(25)
	p.Params = map[string]int64{"day_change": 1, "nodes": 7, "maxlat_ms": int64(5 + rng.IntN(40)), "op_period_s": 10000000}
	p.Params["start_s"] = int64(86400*(1+rng.IntN(400)) - before)
	p.Params["laggard"] = int64(rng.IntN(7))
	p.Params["snapshots"] = int64(40 + rng.IntN(40))
	if tier == "thorough" {
		p.Params["snapshots"] = int64(60 + rng.IntN(120))
	}
	p.Params["chains"] = int64(2 + rng.IntN(3))
	p.Params["follow_every"] = int64(1 + rng.IntN(4))
}

func c26DayExec(p *harness.Plan) *harness.Outcome {
	r, err := newClusterRun("C26", p)
	if err != nil {
		o := harness.NewOutcome()
		o.ToolError = err.Error()
		return o
	}
	defer r.c.Close()
	c := r.c
	if err := c.Boot(); err != nil {
		r.out.ToolError = err.Error()
		return r.out
	}
	rng := core.NewRng(core.SplitMix64(p.Seed ^ 0x26d))
	inj, err := newInjector(c, rng.Sub(1))
	if err != nil {
		r.out.ToolError = err.Error()
		return r.out
	}
	c.Run(2 * time.Second)
	lag := c.Nodes[int(p.P("laggard", 0))%inj.n]
	chains := int(p.P("chains", 3))
	every := int(p.P("follow_every", 2))
	oneDay := uint64(24 * time.Hour)
	day0 := c.NowNano() / oneDay
	var valid []*injected
	n := int(p.P("snapshots", 50))
	for i := 0; i < n && !c.Halt; i++ {
		inj.now = c.NowNano()
		it, err := inj.next(rng.IntN(chains), rng.Chance(0.45))
		if err == nil {
			valid = append(valid, it)
			for to := 0; to < inj.n; to++ {
				inj.deliver(c.External(), c.Nodes[to], it.tx, it.snap, rng.Dur(0, 30*time.Millisecond))
			}
		}
		c.Run(c.Q.Now + rng.Dur(400*time.Millisecond, 1500*time.Millisecond))
		if i%every == 0 {
			for _, node := range c.Nodes[:inj.n] {
				if node != lag {
					c.AggregateNode(node, 2)
				}
			}
		}
	}
	crossed := c.NowNano()/oneDay > day0
	c.Run(c.Q.Now + 3*time.Second)
	stored := 0
	for _, it := range valid {
		all := true
		for _, node := range c.Nodes[:inj.n] {
			if s, _ := node.Store.ReadSnapshot(it.snap.Hash); s == nil {
				all = false
			}
		}
		if all {
			stored++
		}
	}
	// the laggard's loops get their first turns now; then everybody catches up completely
	r.fault("sched.work_loop_behind_its_chain", c.Q.Now)
	for round := 0; round < 3 && !c.Halt; round++ {
		for _, node := range c.Nodes[:inj.n] {
			c.AggregateNode(node, n+10)
		}
	}
	ids := make([]crypto.Hash, 0, inj.n)
	for _, node := range c.Nodes[:inj.n] {
		ids = append(ids, node.Id)
	}
	credits := 0
	if !c.Halt && stored == len(valid) {
		for _, day := range []uint64{day0, day0 + 1} {
			var ref map[crypto.Hash][2]uint64
			var refNode *cluster.SNode
			for _, node := range c.Nodes[:inj.n] {
				if !node.Alive {
					continue
				}
				got, err := node.Store.ListNodeWorks(ids, uint32(day))
				r.out.Evals++
				if err != nil {
					c.Violate("C26", "work-counters-unreadable", err.Error(), node)
					break
				}
				if ref == nil {
					ref, refNode = got, node
					for _, w := range got {
						credits += int(w[0] + w[1])
					}
					continue
				}
				for _, id := range ids {
					if got[id] != ref[id] {
						c.Violate("C26", "work-credits-differ-between-nodes", fmt.Sprintf("day %d: n%d counts (lead,sign)=(%d,%d) for node %s, n%d counts (%d,%d), after every work loop caught up with the same history (n%d's loops were far behind their chains over the day change)", day, node.Idx, got[id][0], got[id][1], id.String()[:8], refNode.Idx, ref[id][0], ref[id][1], lag.Idx), node)
						break
					}
				}
				if c.Halt {
					break
				}
			}
			if c.Halt {
				break
			}
		}
	}
	r.out.Probes["day_change_histories"]++
	if crossed {
		r.out.Probes["day_change_crossed"]++
	}
	r.out.Probes["day_change_snapshots_everywhere"] += stored
	r.out.Probes["day_change_credits_seen"] += credits
	relabelPanic(r, "C26")
	return r.finish(crossed && stored == len(valid) && credits > 0, map[string]any{"mode": "day change", "snapshots": len(valid), "stored_everywhere": stored, "credits": credits, "crossed": crossed})
}
