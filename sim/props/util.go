package props

import (
	"fmt"
	"time"

	"verifsim/cluster"
	"verifsim/core"
	"verifsim/harness"

	"github.com/MixinNetwork/mixin/common"
)

// rctx bundles the bookkeeping every rig execution needs.
type rctx struct {
	prop  string
	out   *harness.Outcome
	trace *core.Trace
	step  int
}

func newCtx(prop string) *rctx {
	return &rctx{prop: prop, out: harness.NewOutcome(), trace: core.NewTrace(120)}
}

func (c *rctx) logf(format string, args ...any) {
	c.step++
	c.trace.Logf(time.Duration(c.step)*time.Millisecond, format, args...)
}

func (c *rctx) viol(sig, format string, args ...any) *harness.Outcome {
	c.out.Violation = &harness.Violation{Property: c.prop, Signature: sig, Detail: fmt.Sprintf(format, args...)}
	c.out.Digest = c.trace.Digest()
	c.out.LogTail = c.trace.Tail()
	return c.out
}

func (c *rctx) tool(err error) *harness.Outcome {
	c.out.ToolError = err.Error()
	return c.out
}

func (c *rctx) done(nontrivial bool, sample any) *harness.Outcome {
	c.out.NonTrivial = nontrivial
	c.out.Digest = c.trace.Digest()
	c.out.Sample = sample
	c.out.SimSeconds = float64(c.step) / 1000
	return c.out
}

// guard converts a panic of the code under test into a violation outcome.
func (c *rctx) guard(sig string, fn func()) (out *harness.Outcome) {
	defer func() {
		if r := recover(); r != nil {
			out = c.viol(sig, "panic: %v", r)
		}
	}()
	fn()
	return nil
}

// weighted draws an index by weights.
func weighted(rng *core.Rng, w []int) int {
	total := 0
	for _, x := range w {
		total += x
	}
	r := rng.IntN(total)
	for i, x := range w {
		if r < x {
			return i
		}
		r -= x
	}
	return len(w) - 1
}

var r3Components = map[string]string{
	"storage.BadgerStore (real Badger v4 fork, files on tmpfs)": "real",
	"common transaction/snapshot encoding":                      "real",
	"kernel, p2p":                                               "not involved in this rig",
	"restart":                                                   "store closed and reopened on the same directory; cache-lost variant deletes the un-synced cache DB directory",
}

var r3Assume = []string{"A1 Badger commit atomic and durable at return", "A3 overlap finer than one Store call equals a serial order or ErrConflict (store mutex + Badger SSI)"}

// snapArg extracts the snapshot argument of an intercepted WriteSnapshot.
func snapArg(call *cluster.StoreCall) *common.SnapshotWithTopologicalOrder {
	return call.Args[0].(*common.SnapshotWithTopologicalOrder)
}

func mergeComponents(ms ...map[string]string) map[string]string {
	out := map[string]string{}
	for _, m := range ms {
		for k, v := range m {
			out[k] = v
		}
	}
	return out
}
