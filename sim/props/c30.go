package props

import (
	"crypto/ed25519"
	"encoding/binary"
	"fmt"
	"time"

	"verifsim/cluster"
	"verifsim/core"
	"verifsim/harness"

	"github.com/MixinNetwork/mixin/crypto"
	"github.com/MixinNetwork/mixin/p2p"
)

// C30 — peer authentication binds identity, recipient, freshness and role.
//
// Simulated connection events between real nodes under per-node clock skew
// and jumps: the dialler's real BuildAuthenticationMessage output travels over
// the simulated link — delayed, replayed much later, delivered to another
// node than it was built for, reflected to its own author, or with any byte
// (incl. the relayer flag) flipped — to the acceptor's real AuthenticateAs
// with the handshake timeout. The socket part of the handshake is a stub.
// Oracle (accepted => ...): signed by the key it names (crypto/ed25519 over
// the Blake3 digest of the first 73 bytes), addressed to the receiver,
// |stamp - receiver clock| <= timeout, author differs from the receiver,
// token identity equals the node identity of that key, relayer flag as sent.

func c30Gen(rng *core.Rng, tier string) *harness.Plan {
	p := &harness.Plan{Seed: rng.Uint64(), Params: map[string]int64{}}
	p.Params["nodes"] = 7
	p.Params["no_loops"] = 1
	p.Params["start_s"] = int64(3600 + rng.IntN(80000))
	n := 60 + rng.IntN(100)
	if tier == "thorough" {
		n = 300 + rng.IntN(600)
	}
	at := int64(time.Second / time.Microsecond)
	for i := 0; i < n; i++ {
		at += int64(rng.Dur(10*time.Millisecond, 2*time.Second) / time.Microsecond)
		if rng.Chance(0.15) {
			skew := int64(rng.IntN(8000) - 4000)
			if rng.Chance(0.3) {
				skew = int64(rng.IntN(40000) - 20000)
			}
			if rng.Chance(0.1) {
				skew = int64(rng.IntN(7200000) - 3600000)
			}
			p.Ops = append(p.Ops, harness.Op{At: at, Kind: "skew", N: rng.IntN(7), A: skew})
			continue
		}
		op := harness.Op{At: at, Kind: "auth", N: rng.IntN(7), M: rng.IntN(7), S: fmt.Sprint("a", i)}
		op.A = int64(rng.IntN(7)) // the node the message is built for
		if rng.Chance(0.6) {
			op.A = int64(op.M)
		}
		switch rng.IntN(6) {
		case 0:
			op.B = int64(rng.IntN(9000)) // delay ms below the timeout
		case 1:
			op.B = int64(9000 + rng.IntN(3000)) // around the timeout
		case 2:
			op.B = int64(20000 + rng.IntN(600000)) // replay much later
		default:
			op.B = int64(rng.IntN(300))
		}
		if rng.Chance(0.35) {
			op.C = int64(1 + rng.IntN(137*8)) // flip this bit (1-based)
		}
		p.Ops = append(p.Ops, op)
	}
	p.Params["dur_ms"] = at/1000 + 700000
	return p
}

func c30Exec(p *harness.Plan) *harness.Outcome {
	r, err := newClusterRun("C30", p)
	if err != nil {
		o := harness.NewOutcome()
		o.ToolError = err.Error()
		return o
	}
	defer r.c.Close()
	c := r.c
	if err := c.Boot(); err != nil {
		r.out.ToolError = err.Error()
		return r.out
	}
	timeout := int64(p2p.HandshakeTimeout / time.Second)
	accepted, rejected := 0, 0
	byKey := map[crypto.Key]*cluster.SNode{}
	for i := 0; i < c.Cfg.Nodes; i++ {
		byKey[c.Nodes[i].Signer.PublicSpendKey] = c.Nodes[i]
	}
	r.extra["auth"] = func(op harness.Op, idx int) {
		dialer, acceptor, builtFor := r.node(op.N), r.node(op.M), r.node(int(op.A))
		var msg []byte
		c.Step(dialer, "client", func() { msg = dialer.Node.BuildAuthenticationMessage(builtFor.Id) })
		if len(msg) != 137 {
			c.Violate("C30", "authentication-message-size", fmt.Sprint(len(msg)), dialer)
			return
		}
		orig := append([]byte{}, msg...)
		flipped := op.C > 0
		if flipped {
			bit := int(op.C-1) % (137 * 8)
			msg[bit/8] ^= 1 << uint(bit%8)
			r.out.Faults["byz.auth_bit_flip"]++
		}
		if builtFor != acceptor {
			r.out.Faults["byz.auth_redirected"]++
		}
		if dialer == acceptor {
			r.out.Faults["byz.auth_reflected"]++
		}
		delay := time.Duration(op.B) * time.Millisecond
		if delay > 9*time.Second {
			r.out.Faults["net.auth_delayed_or_replayed"]++
		}
		deliver := func(msg []byte, delay time.Duration, flipped bool) {
			c.Q.After(delay, "auth.deliver", func() {
				var token *p2p.AuthToken
				var aerr error
				var now time.Time
				ok := c.Step(acceptor, "client", func() {
					now = time.Unix(0, int64(c.NowNano()))
					token, aerr = acceptor.Node.AuthenticateAs(acceptor.Id, msg, timeout)
				})
				if !ok {
					return
				}
				r.out.Evals++
				c.Trace.Logf(c.Q.Now, "auth n%d->n%d for n%d delay=%dms flip=%v accepted=%v", dialer.Idx, acceptor.Idx, builtFor.Idx, op.B, flipped, aerr == nil)
				if aerr != nil {
					rejected++
					return
				}
				accepted++
				fail := func(sig, detail string) {
					c.Violate("C30", sig, fmt.Sprintf("n%d accepted an authentication message from n%d built for n%d (delay %v, flipped %v): %s", acceptor.Idx, dialer.Idx, builtFor.Idx, delay, flipped, detail), acceptor)
				}
				var pub crypto.Key
				copy(pub[:], msg[40:72])
				digest := crypto.Blake3Hash(msg[:73])
				if !ed25519.Verify(ed25519.PublicKey(pub[:]), digest[:], msg[73:137]) {
					fail("accepted-with-invalid-signature", "signature does not verify under the named key")
					return
				}
				var rcpt crypto.Hash
				copy(rcpt[:], msg[8:40])
				if rcpt != acceptor.Id {
					fail("accepted-for-other-recipient", "recipient field names another node")
					return
				}
				stamp := int64(binary.BigEndian.Uint64(msg[:8]))
				if d := now.Unix() - stamp; d > timeout || d < -timeout {
					fail("accepted-stale-or-future", fmt.Sprintf("stamp %d vs receiver clock %d", stamp, now.Unix()))
					return
				}
				author := byKey[pub]
				if author == nil {
					fail("accepted-unknown-key", "key belongs to no node of the run")
					return
				}
				if author == acceptor {
					fail("accepted-own-message", "the receiver authenticated itself")
					return
				}
				if token.PeerId != author.Id {
					fail("token-identity-not-derived-from-key", fmt.Sprintf("token %s, key belongs to %s", token.PeerId.String()[:8], author.Id.String()[:8]))
					return
				}
				if token.IsRelayer != (orig[72] == 1) || string(msg) != string(orig) {
					fail("accepted-modified-message", "an altered message was accepted")
					return
				}
				if token.Timestamp != uint64(stamp) {
					fail("token-timestamp", "token timestamp differs from the message")
				}
			})
		}
		if flipped && op.C%2 == 1 {
			// the receiver sees the genuine message first (as it would through a relayer's gossip or an
			// earlier connection) and the altered copy, which reuses key and signature, right after it
			deliver(orig, delay, false)
			if op.C%4 == 1 {
				// a targeted alteration instead of a random bit: refresh the stamp, redirect, or toggle the role
				msg = append([]byte{}, orig...)
				switch (op.C / 4) % 3 {
				case 0:
					binary.BigEndian.PutUint64(msg[:8], uint64(int64(c.NowNano())/int64(time.Second)+int64(delay/time.Second)))
				case 1:
					other := r.node(acceptor.Idx + 1 + int(op.C/12)%5)
					copy(msg[8:40], other.Id[:])
				default:
					msg[72] ^= 1
				}
				r.out.Faults["byz.auth_targeted_alteration_after_genuine"]++
			} else {
				r.out.Faults["byz.auth_bit_flip_after_genuine"]++
			}
			deliver(msg, delay+30*time.Millisecond, true)
			return
		}
		deliver(msg, delay, flipped)
	}
	r.schedule()
	c.Run(time.Duration(p.P("dur_ms", 60000)) * time.Millisecond)
	r.out.Probes["accepted"] += accepted
	r.out.Probes["rejected"] += rejected
	relabelPanic(r, "C30")
	return r.finish(accepted > 0 && rejected > 0, map[string]any{"accepted": accepted, "rejected": rejected})
}

func init() {
	harness.Register(&harness.Property{
		ID:    "C30",
		Level: "exploration",
		Rule: "60-159 (thorough 300-899) simulated connection attempts per run between 7 real nodes with clock skews of +-4 s (sometimes +-20 s or +-1 h) applied and changed during the run: real BuildAuthenticationMessage output delivered after 0-300 ms, 0-9 s, 9-12 s (around the 10 s timeout) or 20-620 s (replay), to the intended node, to another node or back to its author, with one random bit (of all 1096) flipped in 35% of the cases; real AuthenticateAs judged by an independent ed25519/recipient/freshness/identity check; " +
			"half of the altered copies are delivered 30 ms after the genuine message to the same receiver (random bit, refreshed stamp, redirected recipient or toggled relayer flag); " +
			"non-trivial = at least one accepted and one rejected attempt; distinct = canonical-log digests. The QUIC/TLS part of the handshake is a stub.",
		Components: map[string]string{"kernel.Node.BuildAuthenticationMessage / AuthenticateAs": "real", "kernel clock": "simulated per node", "QUIC dial/accept, stream framing": "stub"},
		Assume:     []string{"A2 blake3/ed25519 libraries correct"},
		Gen:        c30Gen,
		Exec:       c30Exec,
		QuickRuns:  400, ThoroughRuns: 20000,
		QuickWall: 30 * time.Second, ThoroughWall: 8 * time.Minute,
	})
}
