package props

import (
	"fmt"
	"time"

	"verifsim/cluster"
	"verifsim/core"
	"verifsim/harness"

	"github.com/MixinNetwork/mixin/common"
	"github.com/MixinNetwork/mixin/crypto"
)

// C21, every consensus class (membership rig). The cluster part of C21 reaches
// one class (the node removal the real election proposes). Here the long-horizon
// membership rig produces each class — pledge, acceptance (round zero of a new
// chain), removal, custodian update and the universal mint — as the real
// transaction finalized through the node's ordinary finalization path, and the
// target node is cut at an enumerated boundary of exactly that operation:
//
//	mode 3  right after the snapshot write
//	mode 1  right before the consensus record write
//	mode 2  after the consensus record write plus k further store calls
//
// optionally with a long run of ordinary snapshots (more than one page of the
// start-up scan) between the previous consensus operation and this one. After
// the restart the last recorded consensus operation must be that snapshot or a
// later one (same oracle as the cluster part), and the node must follow the
// rest of the history.

var c21Classes = []struct {
	name string
	typ  uint8
}{
	{"pledge", common.TransactionTypeNodePledge},
	{"accept", common.TransactionTypeNodeAccept},
	{"remove", common.TransactionTypeNodeRemove},
	{"custodian", common.TransactionTypeCustodianUpdateNodes},
	{"mint", common.TransactionTypeMint},
}

func c21MemPlan(seed uint64, class int, mode, k, bulk int64) *harness.Plan {
	rng := core.NewRng(core.SplitMix64(seed ^ uint64(class+1)*0x9e3779b97f4a7c15))
	p := &harness.Plan{Seed: rng.Uint64(), Params: map[string]int64{}}
	p.Params["mem"] = 1
	p.Params["class"] = int64(class)
	p.Params["mode"], p.Params["k"], p.Params["bulk"] = mode, k, bulk
	p.Params["nodes"] = 7
	p.Params["extra_keys"] = 3
	p.Params["start_s"] = int64(20*3600 + rng.IntN(3600))
	p.Params["op_period_s"] = 10000000
	p.Params["maxlat_ms"] = int64(5 + rng.IntN(40))
	p.Params["target"] = int64(rng.IntN(7))
	name := c21Classes[class].name
	add := func(kind string, a, b int64) {
		p.Ops = append(p.Ops, harness.Op{Kind: "mem." + kind, A: a, B: b, N: rng.IntN(9), S: fmt.Sprint(kind, len(p.Ops))})
	}
	add("ordinary", int64(rng.IntN(100)), 0)
	switch name {
	case "accept":
		add("pledge", 0, 0)
	case "remove":
		p.Params["nodes"] = 8
		p.Params["target"] = int64(rng.IntN(8))
	case "mint":
		p.Params["start_s"] += int64(1708+rng.IntN(1000)) * 86400
	}
	if rng.Chance(0.5) {
		add("custodian", 0, 0) // an earlier consensus operation of another class
	}
	if bulk > 0 {
		add("bulk", bulk, int64(rng.IntN(7)))
	}
	add(name, 0, 0)
	add("ordinary", int64(rng.IntN(100)), 0)
	if name != "mint" && rng.Chance(0.5) {
		add("custodian", 0, 0) // the history goes on with a later consensus operation
	}
	return p
}

// c21LateOldPlan: two consensus operations close together, and an ordinary
// snapshot of another chain that is OLDER (by its timestamp) than the first of
// them but reaches the target late: it is stored between the second
// operation's snapshot write and its record write (the other chain loop of the
// same node runs in between), and the node is cut right there. The newest
// stored snapshot then carries a timestamp below the last record's although an
// unrecorded consensus snapshot precedes it in the store.
func c21LateOldPlan(seed uint64, class int) *harness.Plan {
	p := c21MemPlan(seed, class, 1, 0, 0)
	rng := core.NewRng(core.SplitMix64(seed ^ 0x1a7e01d))
	name := c21Classes[class].name
	p.Params["late_old"] = 1
	p.Ops = nil
	add := func(kind string, a int64) {
		p.Ops = append(p.Ops, harness.Op{Kind: "mem." + kind, A: a, N: rng.IntN(9), S: fmt.Sprint(kind, len(p.Ops))})
	}
	add("ordinary", int64(rng.IntN(100)))
	if name == "accept" {
		add("pledge", 0)
	}
	add("holdold", int64(rng.IntN(100)))
	add("custodian", 0)
	add("deliverold", 0)
	add(name, 0)
	add("ordinary", int64(rng.IntN(100)))
	return p
}

func c21MemEnumerate(tier string, seed uint64) []*harness.Plan {
	var out []*harness.Plan
	histories := 1
	ks := []int64{0, 2}
	bulks := []int64{0}
	if tier == "thorough" {
		histories, ks, bulks = 6, []int64{0, 1, 2, 3, 5, 8}, []int64{0, 0, 130, 520}
	}
	for h := 0; h < histories; h++ {
		hs := core.SplitMix64(seed ^ core.SplitMix64(uint64(h)+0x21))
		for class := range c21Classes {
			for _, bulk := range bulks {
				for mode := int64(1); mode <= 3; mode++ {
					kk := []int64{0}
					if mode == 2 {
						kk = ks
					}
					for _, k := range kk {
						p := c21MemPlan(hs, class, mode, k, bulk)
						p.Params["history"] = int64(1000 + h)
						out = append(out, p)
					}
				}
			}
		}
		// the late older snapshot between snapshot write and record write, for the classes that can follow a
		// custodian update at once
		for _, class := range []int{0, 2, 3} {
			if true {
				out = append(out, c21LateOldPlan(hs, class))
			}
		}
		if tier != "thorough" {
			// the long gap between consensus operations, once per tier: more than one page of the start-up scan
			out = append(out, c21MemPlan(hs, 3, 3, 0, 520), c21MemPlan(hs, 0, 1, 0, 130))
		}
	}
	return out
}

func c21MemExec(p *harness.Plan) *harness.Outcome {
	class := c21Classes[int(p.P("class", 0))%len(c21Classes)]
	var mon *c21Mon
	r, m, fail := runMembership("C21", p, nil, nil, func(r *crun) {
		nodes := int(p.P("nodes", 7))
		mon = &c21Mon{r: r, target: int(p.P("target", 0)) % nodes, mode: int(p.P("mode", 1)), k: int(p.P("k", 0)), onlyType: class.typ,
			pending: map[int]*common.Snapshot{}, written: map[int]*common.Snapshot{}}
		r.c.AddMonitor(mon)
		if p.P("late_old", 0) == 1 {
			mon.interleave = 1
			if class.name == "custodian" {
				mon.skipFirst = 1 // the first custodian update is the earlier operation, the second one is cut
			}
			var held *injected
			r.extra["mem.holdold"] = func(op harness.Op, idx int) {
				m := r.mem
				target := r.c.Nodes[mon.target]
				// an ordinary snapshot on the chain of a member other than the target, stamped now; everybody
				// but the target gets it
				var owner *memIdent
				for k, id := range m.leaders() {
					if id.idx != mon.target && (owner == nil || k == int(op.A)%len(m.leaders())) {
						owner = id
					}
				}
				if owner == nil {
					return
				}
				m.inj.now = m.now()
				it, err := m.inj.nextWith(m.inj.chainIndex(owner.id), false, nil)
				if err != nil {
					return
				}
				// on the target the loop of that chain gets no turn from now on (the peers' synchronisation
				// would hand it the snapshot anyway)
				target.PollOnly = map[crypto.Hash]bool{}
				for _, id := range target.Node.SimChainIDs() {
					if id != owner.id {
						target.PollOnly[id] = true
					}
				}
				r.fault("sched.chain_loop_held_back", r.c.Q.Now+30*time.Second)
				for to := 0; to < r.c.Cfg.Nodes; to++ {
					if to != target.Idx {
						m.inj.deliver(r.c.External(), r.c.Nodes[to], it.tx, it.snap, time.Duration(to)*time.Millisecond)
					}
				}
				m.applied = append(m.applied, it)
				held = it
				q := owner.id
				m.quietChain = &q
				r.c.Run(r.c.Q.Now + 2*time.Second)
			}
			r.extra["mem.deliverold"] = func(op harness.Op, idx int) {
				m := r.mem
				target := r.c.Nodes[mon.target]
				if held == nil || !target.Alive {
					return
				}
				// the scenario needs the first operation recorded on every node, the target included (if it sat
				// on the held-back chain the target does not know it, and a second operation built from the
				// target's view would reference a stale predecessor: no honest network certifies that)
				want := ""
				for _, n := range r.c.Nodes[:r.c.Cfg.Nodes] {
					if !n.Alive {
						continue
					}
					last, err := n.Store.ReadLastConsensusSnapshot()
					if err != nil || last == nil {
						continue
					}
					h := last.PayloadHash().String()
					if want == "" {
						want = h
					}
					if h != want {
						target.PollOnly = nil
						m.quietChain = nil
						mon.mode, mon.interleave = 0, 0
						held = nil
						r.out.Probes["late_old_scenario_abandoned"]++
						r.c.Run(r.c.Q.Now + 3*time.Second)
						return
					}
				}
				// the target learns it (again) now; its loop for that chain still gets no turn
				m.inj.deliver(r.c.External(), target, held.tx, held.snap, time.Millisecond)
				r.c.Run(r.c.Q.Now + time.Second)
				if s, _ := target.Store.ReadSnapshot(held.snap.Hash); s == nil {
					r.out.Probes["older_snapshot_pending_on_target"]++
				}
			}
		}
	})
	if fail != nil {
		return fail
	}
	defer r.c.Close()
	c := r.c
	c.Nodes[mon.target].PollOnly = nil
	r.out.Probes["other_chain_writes_between_snapshot_and_record"] += mon.interleaved
	// everything that was finalized must be on every node in the end, the restarted target included
	missing := 0
	if !c.Halt {
		for _, n := range c.Nodes[:c.Cfg.Nodes] {
			if !n.Alive {
				if err := c.Restart(n); err != nil {
					c.Violate("C21", "restart-failed", err.Error(), n)
				}
			}
		}
		for _, it := range m.applied {
			m.send(it)
		}
		c.Run(c.Q.Now + 5*time.Second)
		for _, it := range m.applied {
			if !m.everywhere(it) {
				missing++
			}
		}
	}
	if !c.Halt && mon.crashed && mon.checks == 0 {
		// the cut node has not come back by itself yet
		c.Run(c.Q.Now + 6*time.Second)
	}
	r.out.Probes["consensus_snapshot_writes"] += mon.consensusWrites
	r.out.Probes["enumerated_crashes"] += b2i(mon.crashed)
	r.out.Probes["restart_checks"] += mon.checks
	r.out.Probes["class_"+class.name+"_cut"] += b2i(mon.crashed)
	r.out.Probes["history_snapshots_missing_after_settle"] += missing
	relabelPanic(r, "C21")
	return r.finish(mon.crashed && mon.checks > 0, map[string]any{"mode": "membership rig", "class": class.name, "boundary": mon.mode, "k": mon.k, "bulk": p.P("bulk", 0), "crashed": mon.crashed, "checks": mon.checks, "records": len(m.records), "missing": missing, "history": p.P("history", -1)})
}

var _ = crypto.Hash{}
var _ = cluster.BaseMonitor{}
