package props

import (
	"fmt"
	"math/big"
	"time"

	"verifsim/cluster"
	"verifsim/core"
	"verifsim/harness"

	"github.com/MixinNetwork/mixin/common"
	"github.com/MixinNetwork/mixin/crypto"
)

// C05 — validating any decodable transaction never crashes the node.
//
// R1: a Byzantine peer pushes transaction bundles into the cache queue of
// real nodes (validated by the background queue worker, which has no
// recover) and a client submits the same bodies through the RPC path. The
// bodies are structure-aware mutations of valid transactions over a ledger
// that holds script outputs of several assets (incl. XIN), 2-of-3 outputs and
// the genesis node-accept / custodian outputs: every output-type
// combination, amounts up to 2^500, missing / surplus / mixed signature
// data, special inputs, membership-typed transactions over ordinary inputs.
// Oracle: tripwire — no panic escapes a node step; additionally the C01/C02
// admission oracles stay armed.

var shapeKinds = []string{
	"remove-typed-no-signature-maps", "remove-typed-second-input-unsigned", "storage-output-huge-amount", "storage-output-large-extra",
	"withdrawal-submit", "withdrawal-submit-bad-change", "withdrawal-claim-no-reference", "withdrawal-claim-bad-reference",
	"pledge-typed", "pledge-typed-short-extra", "cancel-typed", "accept-typed-over-script", "accept-typed-over-genesis-accept",
	"custodian-update-garbage", "custodian-slash-typed", "client-mint", "client-genesis-input", "surplus-signature-maps", "missing-signature-maps",
	"aggregate-and-maps", "aggregate-unsorted-signers", "aggregate-huge-index", "spend-custodian-output", "amount-2^500", "zero-outputs-keys",
	"too-many-references", "unfinalized-reference", "mixed-output-types", "deposit-empty-asset-key", "input-index-large",
}

func shapeBuild(r *crun, rng *core.Rng, kind, label string) (out *advTx) {
	defer func() {
		if recover() != nil { // the repo's encoder refuses the structure: not a decodable body
			r.out.Probes["shape_not_encodable:"+kind]++
			out = nil
		}
	}()
	c := r.c
	var xin, any *cluster.Coin
	for try := 0; try < 30; try++ {
		coin := r.pickCoin(rng.IntN(1 << 20))
		if coin == nil {
			break
		}
		if !c.FinalizedEverywhere(coin.Tx) {
			continue
		}
		if coin.Asset == common.XINAssetId && xin == nil {
			xin = coin
		}
		if any == nil {
			any = coin
		}
	}
	if any == nil {
		return nil
	}
	if xin == nil {
		xin = any
	}
	a := &advTx{label: kind, class: "shape"}
	seedOf := func(i int) []byte {
		h := crypto.Blake3Hash([]byte(fmt.Sprintf("shape%s%d", label, i)))
		return append(h[:], h[:]...)
	}
	user := func(i int) []*common.Address { return []*common.Address{c.User(i)} }
	sign := func(tx *common.Transaction, coins ...*cluster.Coin) *common.VersionedTransaction {
		signed := &common.SignedTransaction{Transaction: *tx}
		for _, coin := range coins {
			var accounts []*common.Address
			k := int(coin.Threshold)
			for _, u := range coin.Owners[:k] {
				accounts = append(accounts, c.User(u))
			}
			if err := signed.SignUTXO(coin.UTXO, accounts); err != nil {
				panic(err)
			}
		}
		return signed.AsVersioned()
	}
	base := func(coin *cluster.Coin) *common.Transaction {
		tx := common.NewTransactionV5(coin.Asset)
		tx.AddInput(coin.Tx, coin.Index)
		return tx
	}
	genesisAccept := func() (crypto.Hash, *common.VersionedTransaction) {
		_, _, txs, _ := c.Gns.BuildSnapshots()
		return txs[0].PayloadHash(), txs[0]
	}
	switch kind {
	case "remove-typed-no-signature-maps":
		tx := base(xin)
		tx.AddOutputWithType(common.OutputTypeNodeRemove, user(1), common.NewThresholdScript(1), xin.Amount, seedOf(0))
		tx.Extra = make([]byte, 64)
		a.tx = tx.AsVersioned()
	case "remove-typed-second-input-unsigned":
		gh, gtx := genesisAccept()
		tx := common.NewTransactionV5(common.XINAssetId)
		tx.AddInput(gh, 0)
		tx.AddInput(xin.Tx, xin.Index)
		tx.AddOutputWithType(common.OutputTypeNodeRemove, user(1), common.NewThresholdScript(1), gtx.Outputs[0].Amount.Add(xin.Amount), seedOf(0))
		tx.Extra = gtx.Extra
		a.tx = tx.AsVersioned()
	case "storage-output-huge-amount":
		tx := base(xin)
		huge := amountFromUnits(new(big.Int).Lsh(big.NewInt(1), uint(80+rng.IntN(300))))
		tx.AddOutputWithType(common.OutputTypeScript, user(1), common.NewThresholdScript(64), huge, seedOf(0))
		tx.Extra = make([]byte, 300)
		a.tx = sign(tx, xin)
	case "storage-output-large-extra":
		tx := base(xin)
		tx.AddOutputWithType(common.OutputTypeScript, user(1), common.NewThresholdScript(64), xin.Amount, seedOf(0))
		tx.Extra = make([]byte, 1024*(1+rng.IntN(64)))
		a.tx = sign(tx, xin)
	case "withdrawal-submit", "withdrawal-submit-bad-change":
		tx := base(any)
		tx.Outputs = append(tx.Outputs, &common.Output{Type: common.OutputTypeWithdrawalSubmit, Amount: any.Amount, Withdrawal: &common.WithdrawalData{Address: "addr-" + label, Tag: "t"}})
		if kind == "withdrawal-submit-bad-change" {
			tx.Outputs[0].Amount = amountFromUnits(new(big.Int).Sub(units(any.Amount), big.NewInt(1)))
			tx.Outputs = append(tx.Outputs, &common.Output{Type: common.OutputTypeWithdrawalClaim, Amount: amountFromUnits(big.NewInt(1))})
		}
		a.tx = sign(tx, any)
		if kind == "withdrawal-submit" {
			a.valid, a.class = true, "valid"
		}
	case "withdrawal-claim-no-reference", "withdrawal-claim-bad-reference":
		tx := base(xin)
		tx.Outputs = append(tx.Outputs, &common.Output{Type: common.OutputTypeWithdrawalClaim, Amount: xin.Amount})
		tx.Extra = make([]byte, 70)
		if kind == "withdrawal-claim-bad-reference" {
			tx.References = []crypto.Hash{xin.Tx}
			tx.Extra = make([]byte, rng.IntN(64))
		}
		a.tx = sign(tx, xin)
	case "pledge-typed", "pledge-typed-short-extra":
		tx := base(xin)
		tx.AddOutputWithType(common.OutputTypeNodePledge, nil, common.Script{}, xin.Amount, nil)
		k := c.User(7).PublicSpendKey
		tx.Extra = append(append([]byte{}, k[:]...), k[:]...)
		if kind == "pledge-typed-short-extra" {
			tx.Extra = tx.Extra[:rng.IntN(64)]
		}
		a.tx = sign(tx, xin)
	case "cancel-typed":
		tx := base(xin)
		tx.AddOutputWithType(common.OutputTypeNodeCancel, nil, common.Script{}, xin.Amount.Div(2), nil)
		tx.AddOutputWithType(common.OutputTypeScript, user(1), common.NewThresholdScript(1), xin.Amount.Sub(xin.Amount.Div(2)), seedOf(1))
		tx.Extra = make([]byte, 96)
		a.tx = sign(tx, xin)
	case "accept-typed-over-script":
		tx := base(xin)
		tx.AddOutputWithType(common.OutputTypeNodeAccept, nil, common.Script{}, xin.Amount, nil)
		tx.Extra = make([]byte, 64)
		a.tx = sign(tx, xin)
	case "accept-typed-over-genesis-accept":
		gh, gtx := genesisAccept()
		tx := common.NewTransactionV5(common.XINAssetId)
		tx.AddInput(gh, 0)
		tx.AddOutputWithType(common.OutputTypeNodeAccept, nil, common.Script{}, gtx.Outputs[0].Amount, nil)
		tx.Extra = gtx.Extra
		signed := &common.SignedTransaction{Transaction: *tx}
		sig := c.User(1).PrivateSpendKey.Sign(signed.AsVersioned().PayloadHash())
		signed.SignaturesMap = []map[uint16]*crypto.Signature{{0: &sig}}
		a.tx = signed.AsVersioned()
	case "custodian-update-garbage":
		tx := base(xin)
		tx.AddOutputWithType(common.OutputTypeCustodianUpdateNodes, user(1), common.NewThresholdScript(64), xin.Amount, seedOf(0))
		// lengths around the parser's structural boundaries (header 64, entry 161/353..., trailing signature 64)
		n := 64 + rng.IntN(2000)
		if rng.Chance(0.6) {
			n = []int{0, 1, 63, 64, 65, 100, 127, 128, 129, 64 + 161, 64 + 161 + 63, 64 + 161 + 64, 64 + 7*161 + 64, 64 + 7*161 + 63}[rng.IntN(14)]
			if rng.Chance(0.3) {
				n = rng.IntN(300)
			}
		}
		tx.Extra = make([]byte, n)
		rng.Bytes(tx.Extra)
		a.tx = sign(tx, xin)
	case "custodian-slash-typed":
		tx := base(xin)
		tx.Outputs = append(tx.Outputs, &common.Output{Type: common.OutputTypeCustodianSlashNodes, Amount: xin.Amount})
		a.tx = sign(tx, xin)
	case "client-mint":
		tx := common.NewTransactionV5(common.XINAssetId)
		tx.AddUniversalMintInput(uint64(1700+rng.IntN(400)), common.NewIntegerFromString("89.87671232"))
		tx.AddScriptOutput(user(1), common.NewThresholdScript(1), common.NewIntegerFromString("89.87671232"), seedOf(0))
		signed := &common.SignedTransaction{Transaction: *tx}
		signed.SignRaw(c.User(1).PrivateSpendKey)
		a.tx = signed.AsVersioned()
	case "client-genesis-input":
		tx := common.NewTransactionV5(common.XINAssetId)
		tx.Inputs = []*common.Input{{Genesis: c.NetworkId[:]}}
		tx.AddScriptOutput(user(1), common.NewThresholdScript(1), common.NewInteger(5), seedOf(0))
		a.tx = tx.AsVersioned()
	case "surplus-signature-maps":
		tx := base(any)
		tx.AddScriptOutput(user(1), common.NewThresholdScript(1), any.Amount, seedOf(0))
		v := sign(tx, any)
		v.SignaturesMap = append(v.SignaturesMap, v.SignaturesMap[0], map[uint16]*crypto.Signature{})
		a.tx = v.SignedTransaction.AsVersioned()
	case "missing-signature-maps":
		tx := base(any)
		tx.AddScriptOutput(user(1), common.NewThresholdScript(1), any.Amount, seedOf(0))
		a.tx = tx.AsVersioned()
	case "aggregate-and-maps", "aggregate-unsorted-signers", "aggregate-huge-index":
		tx := base(any)
		tx.AddScriptOutput(user(1), common.NewThresholdScript(1), any.Amount, seedOf(0))
		signed := &common.SignedTransaction{Transaction: *tx}
		seed := make([]byte, 64)
		rng.Bytes(seed)
		var accounts []*common.Address
		for _, u := range any.Owners[:int(any.Threshold)] {
			accounts = append(accounts, c.User(u))
		}
		if err := signed.AggregateSign(coinReader{[]*cluster.Coin{any}}, [][]*common.Address{accounts}, seed); err != nil {
			return nil
		}
		switch kind {
		case "aggregate-and-maps":
			honest := sign(tx, any)
			signed.SignaturesMap = honest.SignaturesMap
		case "aggregate-unsorted-signers":
			signed.AggregatedSignature.Signers = []int{2, 0, 1}
		case "aggregate-huge-index":
			signed.AggregatedSignature.Signers = []int{0, 60000}
		}
		a.tx = tryVersioned(signed)
	case "spend-custodian-output":
		_, _, txs, _ := c.Gns.BuildSnapshots()
		cu := txs[len(txs)-1]
		tx := common.NewTransactionV5(common.XINAssetId)
		tx.AddInput(cu.PayloadHash(), 0)
		tx.AddScriptOutput(user(1), common.NewThresholdScript(1), cu.Outputs[0].Amount, seedOf(0))
		signed := &common.SignedTransaction{Transaction: *tx}
		sig := c.User(1).PrivateSpendKey.Sign(signed.AsVersioned().PayloadHash())
		signed.SignaturesMap = []map[uint16]*crypto.Signature{{0: &sig}}
		a.tx = signed.AsVersioned()
	case "amount-2^500":
		tx := base(any)
		v := amountFromUnits(new(big.Int).Lsh(big.NewInt(1), 500))
		tx.AddScriptOutput(user(1), common.NewThresholdScript(1), v, seedOf(0))
		tx.AddScriptOutput(user(2), common.NewThresholdScript(1), v, seedOf(1))
		a.tx = sign(tx, any)
	case "zero-outputs-keys":
		tx := base(any)
		tx.Outputs = append(tx.Outputs, &common.Output{Type: common.OutputTypeScript, Amount: any.Amount, Script: common.NewThresholdScript(0), Mask: c.User(1).PublicSpendKey})
		a.tx = sign(tx, any)
	case "too-many-references", "unfinalized-reference":
		tx := base(any)
		tx.AddScriptOutput(user(1), common.NewThresholdScript(1), any.Amount, seedOf(0))
		n := 17
		if kind == "unfinalized-reference" {
			n = 1
		}
		for i := 0; i < n; i++ {
			var h crypto.Hash
			rng.Bytes(h[:])
			tx.References = append(tx.References, h)
		}
		a.tx = sign(tx, any)
	case "mixed-output-types":
		tx := base(xin)
		third := xin.Amount.Div(3)
		tx.AddScriptOutput(user(1), common.NewThresholdScript(1), third, seedOf(0))
		tx.AddOutputWithType(common.OutputTypeNodePledge, nil, common.Script{}, third, nil)
		tx.Outputs = append(tx.Outputs, &common.Output{Type: common.OutputTypeWithdrawalSubmit, Amount: xin.Amount.Sub(third).Sub(third), Withdrawal: &common.WithdrawalData{Address: "x", Tag: ""}})
		tx.Extra = make([]byte, 64)
		a.tx = sign(tx, xin)
	case "deposit-empty-asset-key":
		tx := common.NewTransactionV5(common.SOLAssetId)
		tx.AddDepositInput(&common.DepositData{Chain: common.SOLAssetId, AssetKey: "", Transaction: " x ", Index: 1 << 40, Amount: common.NewInteger(1)})
		tx.AddScriptOutput(user(1), common.NewThresholdScript(1), common.NewInteger(1), seedOf(0))
		signed := &common.SignedTransaction{Transaction: *tx}
		signed.SignRaw(c.Domain.PrivateSpendKey)
		a.tx = tryVersioned(signed)
	case "input-index-large":
		tx := common.NewTransactionV5(any.Asset)
		tx.AddInput(any.Tx, uint(900+rng.IntN(200)))
		tx.AddScriptOutput(user(1), common.NewThresholdScript(1), any.Amount, seedOf(0))
		signed := &common.SignedTransaction{Transaction: *tx}
		sig := c.User(1).PrivateSpendKey.Sign(signed.AsVersioned().PayloadHash())
		signed.SignaturesMap = []map[uint16]*crypto.Signature{{0: &sig}}
		a.tx = signed.AsVersioned()
	default:
		return nil
	}
	if a.tx == nil {
		return nil
	}
	// only decodable bodies qualify (the property quantifies over them)
	if !decodable(a.tx) {
		r.out.Probes["shape_not_decodable:"+kind]++
		return nil
	}
	return a
}

func tryVersioned(s *common.SignedTransaction) (v *common.VersionedTransaction) {
	defer func() {
		if recover() != nil {
			v = nil
		}
	}()
	v = s.AsVersioned()
	v.Marshal()
	return v
}

func decodable(tx *common.VersionedTransaction) (ok bool) {
	defer func() {
		if recover() != nil {
			ok = false
		}
	}()
	b := tx.Marshal()
	back, err := common.UnmarshalVersionedTransaction(b)
	return err == nil && back.PayloadHash() == tx.PayloadHash()
}

func c05Gen(rng *core.Rng, tier string) *harness.Plan {
	p := &harness.Plan{Seed: rng.Uint64(), Params: map[string]int64{}}
	baseClusterParams(rng, p)
	delete(p.Params, "drop_ppm")
	dur := time.Duration(45+rng.IntN(20)) * time.Second
	if tier == "thorough" {
		dur = time.Duration(70+rng.IntN(80)) * time.Second
	}
	p.Params["dur_ms"] = int64(dur / time.Millisecond)
	nd := 10 + rng.IntN(6)
	for i := 0; i < nd; i++ {
		c := int64(rng.IntN(4))
		if i%4 == 3 {
			c = 4
		}
		asset := int64(i % 4)
		if i%2 == 0 {
			asset = 3 // XIN
		}
		p.Ops = append(p.Ops, harness.Op{At: int64(rng.Dur(time.Second, 8*time.Second) / time.Microsecond), Kind: "deposit", S: fmt.Sprint("d", i), N: rng.IntN(9), A: asset, B: int64(100 + rng.IntN(1900)), C: c})
	}
	na := 20 + rng.IntN(20)
	if tier == "thorough" {
		na = 50 + rng.IntN(80)
	}
	for i := 0; i < na; i++ {
		kind := shapeKinds[rng.IntN(len(shapeKinds))]
		r := rng.Float64()
		if r < 0.15 {
			kind = advValidKinds[rng.IntN(len(advValidKinds))]
		} else if r < 0.25 {
			kind = advConservationKinds[rng.IntN(len(advConservationKinds))]
		} else if r < 0.35 {
			kind = advAuthorizationKinds[rng.IntN(len(advAuthorizationKinds))]
		}
		p.Ops = append(p.Ops, harness.Op{At: int64(rng.Dur(14*time.Second, dur) / time.Microsecond), Kind: "adv", S: kind + "#" + fmt.Sprint(i), N: rng.IntN(9), M: rng.IntN(9), B: int64(rng.IntN(3))})
	}
	for i := 0; i < rng.IntN(2); i++ {
		p.Ops = append(p.Ops, harness.Op{At: int64(rng.Dur(14*time.Second, dur) / time.Microsecond), Kind: "crash", N: rng.IntN(9), A: int64(300 + rng.IntN(4000))})
	}
	sortOps(p)
	return p
}

func init() {
	exec := advExec("C05")
	harness.Register(&harness.Property{
		ID:    "C05",
		Level: "exploration",
		Rule: "seeded cluster runs: ledger with XIN and other assets, 1-of-1 and 2-of-3 outputs plus the genesis node-accept and custodian outputs; 20-39 (thorough 50-129) bodies per run drawn from 30 structure-aware shapes (membership-typed transactions over ordinary inputs without signature maps, storage outputs up to 2^380, withdrawal submit/claim variants, pledge/cancel/accept/custodian/slash-typed outputs, client mint and genesis inputs, surplus/missing/mixed signature data, aggregate signer anomalies, 2^500 amounts, zero-key outputs, reference anomalies, mixed output types, odd deposits) plus the C01/C02 forgeries, delivered as unauthenticated peer bundles (background queue worker), through the RPC path, or both; tripwire on any panic escaping a node step; " +
			"non-trivial = at least one shaped body validated and one honest spend finalized; distinct = canonical-log digests. Undecodable bodies are discarded by the generator (counted).",
		Components: clusterComponents,
		Assume:     clusterAssume,
		Gen:        c05Gen,
		Exec:       exec,
		QuickRuns:  64, ThoroughRuns: 3000,
		QuickWall: 45 * time.Second, ThoroughWall: 12 * time.Minute,
	})
}
