package props

import (
	"fmt"
	"time"

	"verifsim/core"
	"verifsim/harness"
	"verifsim/storerig"

	"github.com/MixinNetwork/mixin/common"
	"github.com/MixinNetwork/mixin/crypto"
)

// C03, concurrent part (rig R3c, see conc.go): in every round 2-4 client tasks
// run at the same time against the same store — ordinary admissions (lock the
// inputs, then write the body), finalization-path takeovers (fork lock, then
// write the body) and lock readers — over transactions that compete for the
// same output, deposit or mint slots. Their interleaving at the store mutex and
// Badger transaction boundaries is a seeded schedule. The history of the round
// must be linearizable against the holder-per-slot model, and the state read
// back after the round must be the state that order produces.

type c03State struct {
	holder []int  // per slot: tx index or -1
	body   []bool // per tx
	fin    []bool // per tx
}

func (s *c03State) clone() *c03State {
	return &c03State{holder: append([]int(nil), s.holder...), body: append([]bool(nil), s.body...), fin: append([]bool(nil), s.fin...)}
}

type c03Call struct {
	kind   string // lock | write | read
	tx     int
	fork   bool
	slot   int
	result crypto.Hash // read
}

func c03ReadHolder(f *storerig.Fix, s *c03Slot) (crypto.Hash, error) {
	switch s.kind {
	case "utxo":
		u, err := f.Store.ReadUTXOLock(s.in.Hash, s.in.Index)
		if err != nil || u == nil {
			return crypto.Hash{}, fmt.Errorf("utxo unreadable: %v", err)
		}
		return u.LockHash, nil
	case "deposit":
		return f.Store.ReadDepositLock(s.deposit)
	default:
		kvs, err := f.Store.SimDumpGraph("MINTUNIVERSAL", true)
		if err != nil {
			return crypto.Hash{}, err
		}
		for _, kv := range kvs {
			d, err := common.UnmarshalMintDistribution(kv.Value)
			if err != nil {
				return crypto.Hash{}, err
			}
			if d.Batch == s.mint.Batch {
				return d.Transaction, nil
			}
		}
		return crypto.Hash{}, nil
	}
}

func c03Conc(c *rctx, f *storerig.Fix, p *harness.Plan, rng *core.Rng, slots []*c03Slot, txs []*c03Tx, ts uint64) *harness.Outcome {
	st := &c03State{holder: make([]int, len(slots)), body: make([]bool, len(txs)), fin: make([]bool, len(txs))}
	for i := range st.holder {
		st.holder[i] = -1
	}
	hashOf := func(h int) crypto.Hash {
		if h < 0 {
			return crypto.Hash{}
		}
		return txs[h].hash
	}
	// txs competing for each slot
	bySlot := map[int][]int{}
	for ti, t := range txs {
		for _, si := range t.slots {
			bySlot[si] = append(bySlot[si], ti)
		}
	}
	holdsAll := func(s *c03State, ti int) bool {
		for _, si := range txs[ti].slots {
			if s.holder[si] != ti {
				return false
			}
		}
		return true
	}
	step := func(s *c03State, o *concOp) (*c03State, bool) {
		call := o.data.(*c03Call)
		switch call.kind {
		case "read":
			if o.err != nil || o.panicked != "" {
				return s, false
			}
			return s, call.result == hashOf(s.holder[call.slot])
		case "lock":
			if o.panicked != "" {
				return s, false
			}
			if o.conflict() {
				return s, true
			}
			ok := true
			var displaced []int
			for _, si := range txs[call.tx].slots {
				h := s.holder[si]
				if h >= 0 && h != call.tx {
					if !call.fork || s.fin[h] {
						ok = false
						break
					}
					displaced = append(displaced, h)
				}
			}
			if (o.err == nil) != ok {
				return s, false
			}
			if !ok {
				return s, true
			}
			ns := s.clone()
			for _, d := range displaced {
				ns.body[d] = false
			}
			for _, si := range txs[call.tx].slots {
				ns.holder[si] = call.tx
			}
			return ns, true
		case "write":
			if o.conflict() {
				return s, true
			}
			held := holdsAll(s, call.tx)
			if o.panicked != "" {
				// the store asserts (debug build) that a body is only written by the holder of all its inputs
				return s, !held
			}
			if o.err != nil || !held {
				return s, false
			}
			ns := s.clone()
			ns.body[call.tx] = true
			return ns, true
		}
		return s, false
	}
	observe := func() (*c03State, error) {
		obs := &c03State{holder: make([]int, len(slots)), body: make([]bool, len(txs)), fin: make([]bool, len(txs))}
		idx := map[crypto.Hash]int{}
		for ti, t := range txs {
			idx[t.hash] = ti
		}
		for si, s := range slots {
			h, err := c03ReadHolder(f, s)
			if err != nil {
				return nil, err
			}
			obs.holder[si] = -1
			if h.HasValue() {
				ti, ok := idx[h]
				if !ok {
					return nil, fmt.Errorf("slot %d held by unknown transaction %s", si, h)
				}
				obs.holder[si] = ti
			}
		}
		for ti, t := range txs {
			body, fin, err := f.Store.ReadTransaction(t.hash)
			if err != nil {
				return nil, err
			}
			obs.body[ti], obs.fin[ti] = body != nil, fin != ""
		}
		return obs, nil
	}
	equal := func(a, b *c03State) bool {
		for i := range a.holder {
			if a.holder[i] != b.holder[i] {
				return false
			}
		}
		for i := range a.body {
			if a.body[i] != b.body[i] || a.fin[i] != b.fin[i] {
				return false
			}
		}
		return true
	}

	rounds := int(p.P("rounds", 12))
	granted, refused, takeovers, overlapped := 0, 0, 0, 0
	for r := 0; r < rounds; r++ {
		// pick a contested slot and let 2-4 tasks go for it (plus sometimes an unrelated one)
		var contested []int
		for si := range slots {
			if len(bySlot[si]) >= 2 {
				contested = append(contested, si)
			}
		}
		hot := contested[rng.IntN(len(contested))]
		cands := bySlot[hot]
		k := 2 + rng.IntN(3)
		var tasks [][]*concOp
		var all []*concOp
		for j := 0; j < k; j++ {
			kind := weighted(rng, []int{5, 3, 2})
			switch kind {
			case 0, 1:
				ti := cands[rng.IntN(len(cands))]
				if rng.Chance(0.15) {
					ti = rng.IntN(len(txs))
				}
				if st.fin[ti] {
					continue
				}
				t := txs[ti]
				fork := kind == 1
				lock := &concOp{name: fmt.Sprintf("lock(tx%d,fork=%v)", ti, fork), data: &c03Call{kind: "lock", tx: ti, fork: fork}}
				lock.fn = func() error { return t.ver.LockInputs(f.Store, fork) }
				write := &concOp{name: fmt.Sprintf("write(tx%d)", ti), data: &c03Call{kind: "write", tx: ti}}
				write.fn = func() error { return f.Store.WriteTransaction(t.ver) }
				tasks = append(tasks, []*concOp{lock, write})
				all = append(all, lock, write)
			default:
				si := hot
				call := &c03Call{kind: "read", slot: si}
				rd := &concOp{name: fmt.Sprintf("read(slot%d)", si), data: call}
				rd.fn = func() error {
					h, err := c03ReadHolder(f, slots[si])
					call.result = h
					return err
				}
				tasks = append(tasks, []*concOp{rd})
				all = append(all, rd)
			}
		}
		if len(tasks) < 2 {
			continue
		}
		points, err := runConcurrentTasks(rng, tasks, 400)
		if err != nil {
			return c.tool(fmt.Errorf("round %d: %v (%v)", r, err, points))
		}
		var ran []*concOp
		for _, o := range all {
			if o.skipped {
				continue
			}
			ran = append(ran, o)
			c.logf("r%d %s [%d,%d] err=%v panic=%v", r, o.name, o.call, o.ret, o.err != nil, o.panicked != "")
		}
		for i := range ran {
			for j := range ran {
				if i < j && ran[i].call < ran[j].ret && ran[j].call < ran[i].ret {
					overlapped++
				}
			}
		}
		obs, err := observe()
		if err != nil {
			return c.viol("read-error", "round %d: %v", r, err)
		}
		c.out.Evals++
		var end *c03State
		ok := linearizable(st, ran, step, func(s *c03State) bool {
			if equal(s, obs) {
				end = s
				return true
			}
			return false
		})
		if !ok {
			desc := ""
			for _, o := range ran {
				desc += fmt.Sprintf(" %s[%d,%d]=>%s;", o.name, o.call, o.ret, concResult(o))
			}
			return c.viol("concurrent-history-not-linearizable", "round %d: no serial order of the concurrent operations explains their results and the stored state (holders before %v, after %v):%s schedule %v", r, st.holder, obs.holder, desc, points)
		}
		for _, o := range ran {
			call := o.data.(*c03Call)
			if call.kind == "lock" && !o.conflict() {
				if o.err == nil {
					granted++
					if call.fork {
						takeovers++
					}
				} else {
					refused++
				}
			}
		}
		st = end
		// sequential interlude: finalize a fully admitted transaction now and then
		if rng.Chance(0.35) {
			for ti := range txs {
				if st.body[ti] && !st.fin[ti] && holdsAll(st, ti) && rng.Chance(0.5) {
					ts += uint64(time.Millisecond)
					if _, err := f.Finalize(rng.IntN(7), ts, []*common.VersionedTransaction{txs[ti].ver}, nil); err != nil {
						return c.viol("finalize-error", "round %d: %v", r, err)
					}
					st.fin[ti] = true
					c.logf("r%d finalize tx%d", r, ti)
					c.out.Probes["finalized"]++
					break
				}
			}
		}
	}
	c.out.Probes["conc_locks_granted"] += granted
	c.out.Probes["conc_locks_refused"] += refused
	c.out.Probes["conc_fork_locks_granted"] += takeovers
	c.out.Probes["conc_overlapping_pairs"] += overlapped
	c.out.Faults["interleaved_store_calls"] += overlapped
	return c.done(granted > 0 && refused > 0 && overlapped > 0, map[string]any{"mode": "concurrent", "rounds": rounds, "granted": granted, "refused": refused, "overlapping_pairs": overlapped})
}

func concResult(o *concOp) string {
	switch {
	case o.panicked != "":
		return "panic"
	case o.conflict():
		return "conflict"
	case o.err != nil:
		return "refused"
	}
	if c, ok := o.data.(*c03Call); ok && c.kind == "read" {
		return "holder=" + c.result.String()[:8]
	}
	return "ok"
}
