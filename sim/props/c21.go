package props

import (
	"fmt"
	"time"

	"verifsim/cluster"
	"verifsim/core"
	"verifsim/harness"

	"github.com/MixinNetwork/mixin/common"
	"github.com/MixinNetwork/mixin/crypto"
)

// C21 — consensus bookkeeping survives a crash after any finalization.
//
// R1 with 8-9 real nodes inside the node-operation window: the elected node
// proposes the real node-removal transaction (a consensus-class operation)
// while ordinary deposits keep other chains busy. On a target node the other
// chain loops are held back shortly before the operation, so that when the
// consensus snapshot is written they have finalizations pending; at the
// storage-call boundary between the snapshot write and the consensus marker
// write the simulator lets j other chain loops run (intra-node interleaving
// at Store-call granularity) and then cuts the process at an enumerated
// boundary. Oracle after restart: the last recorded consensus operation is
// that snapshot or a later one.

func isConsensusClass(tx *common.VersionedTransaction) bool {
	switch tx.TransactionType() {
	case common.TransactionTypeMint, common.TransactionTypeNodePledge, common.TransactionTypeNodeCancel, common.TransactionTypeNodeAccept,
		common.TransactionTypeNodeRemove, common.TransactionTypeCustodianUpdateNodes, common.TransactionTypeCustodianSlashNodes:
		return true
	}
	return false
}

type c21Mon struct {
	cluster.BaseMonitor
	r                *crun
	target           int
	interleave       int
	mode             int // 0 none, 1 before marker write, 2 after marker write (+k), 3 right after snapshot write
	k                int
	pending          map[int]*common.Snapshot // node -> consensus snapshot durably written, marker may be outstanding
	written          map[int]*common.Snapshot // node -> newest consensus snapshot durably written
	armed            bool
	crashed          bool
	interleaved      int
	consensusWrites  int
	checks           int
	lastTypeMismatch bool
	onlyType         uint8 // when set, only a consensus snapshot of this transaction type is cut
	skipFirst        int   // number of matching snapshots to let pass before cutting
}

func (m *c21Mon) AfterStore(n *cluster.SNode, call *cluster.StoreCall) {
	c := m.r.c
	switch call.Name {
	case "WriteSnapshot":
		if call.Err != nil {
			return
		}
		snap := snapArg(call)
		if len(snap.Transactions) != 1 {
			return
		}
		tx, _, err := n.Store.ReadTransaction(snap.Transactions[0])
		if err != nil || tx == nil || !isConsensusClass(tx) {
			return
		}
		m.consensusWrites++
		if n.Idx == m.target && m.onlyType != 0 && !m.crashed && !m.armed {
			if tx.TransactionType() != m.onlyType {
				m.lastTypeMismatch = true
			} else if m.skipFirst > 0 {
				m.skipFirst--
				m.lastTypeMismatch = true
			} else {
				m.lastTypeMismatch = false
			}
		}
		if cur := m.written[n.Idx]; cur == nil || cur.Timestamp < snap.Timestamp {
			m.written[n.Idx] = snap.Snapshot
		}
		m.pending[n.Idx] = snap.Snapshot
		c.Trace.Logf(c.Q.Now, "consensus snapshot written n%d %s", n.Idx, snap.PayloadHash().String()[:8])
		if n.Idx == m.target && !m.crashed && m.mode == 3 && !m.lastTypeMismatch {
			m.crashed = true
			c.CrashNow(n, "enumerated.after_consensus_snapshot_write")
		}
	case "WriteConsensusSnapshot":
		if call.Err == nil {
			delete(m.pending, n.Idx)
		}
		if n.Idx == m.target && !m.crashed && m.mode == 2 && !m.lastTypeMismatch {
			m.crashed = true
			if m.k <= 0 {
				c.CrashNow(n, "enumerated.after_marker_write")
			}
			c.CrashAtStoreCall(n, m.k, true)
		}
	}
}

func (m *c21Mon) BeforeStore(n *cluster.SNode, call *cluster.StoreCall) {
	if call.Name != "WriteConsensusSnapshot" || n.Idx != m.target || m.armed || n.Node == nil || !n.Alive {
		return // (start-up repair runs before the node object exists)
	}
	if m.pending[n.Idx] == nil || m.lastTypeMismatch {
		return // start-up repair or repeat, not the live window under test
	}
	m.armed = true
	c := m.r.c
	if m.interleave > 0 {
		var others []crypto.Hash
		self := snapOf(call).NodeId
		for _, id := range n.Node.SimChainIDs() {
			if id != self {
				others = append(others, id)
			}
		}
		before := n.WriteOrdinal
		n.PollOnly = nil
		stepped := 0
		for round := 0; round < m.interleave; round++ {
			stepped += c.PollChainsNested(n, others)
		}
		_ = stepped
		if n.WriteOrdinal > before {
			m.interleaved++
			c.Trace.Logf(c.Q.Now, "interleaved %d store calls of other chains on n%d", n.WriteOrdinal-before, n.Idx)
		}
		if !n.Alive {
			c.CrashNow(n, "nested")
		}
	}
	if m.mode == 1 && !m.crashed {
		m.crashed = true
		c.CrashNow(n, "enumerated.before_marker_write")
	}
}

func snapOf(call *cluster.StoreCall) *common.Snapshot { return call.Args[0].(*common.Snapshot) }

func (m *c21Mon) OnRestart(n *cluster.SNode) {
	want := m.written[n.Idx]
	if want == nil {
		return
	}
	c := m.r.c
	m.checks++
	m.r.out.Evals++
	last, err := n.Store.ReadLastConsensusSnapshot()
	if err != nil || last == nil {
		c.Violate("C21", "consensus-marker-unreadable", fmt.Sprintf("n%d: %v", n.Idx, err), n)
		return
	}
	if last.Timestamp < want.Timestamp {
		c.Violate("C21", "consensus-marker-behind-after-restart", fmt.Sprintf("n%d restarted with last consensus operation %s (ts %d) although consensus snapshot %s (ts %d) was durably finalized before the stop", n.Idx, last.PayloadHash().String()[:8], last.Timestamp, want.PayloadHash().String()[:8], want.Timestamp), n)
	}
}

// c21Plan builds one history; crash parameters are filled by the caller.
func c21Plan(rng *core.Rng) *harness.Plan {
	p := &harness.Plan{Seed: rng.Uint64(), Params: map[string]int64{}}
	p.Params["nodes"] = int64(8 + rng.IntN(2))
	p.Params["start_s"] = int64(13*3600 + 600 + rng.IntN(5*3600))
	p.Params["op_period_s"] = int64(4 + rng.IntN(4))
	p.Params["maxlat_ms"] = int64(10 + rng.IntN(80))
	dur := 50 * time.Second
	p.Params["dur_ms"] = int64(dur / time.Millisecond)
	// steady deposits to several nodes keep other chains finalizing
	n := 30 + rng.IntN(20)
	for i := 0; i < n; i++ {
		p.Ops = append(p.Ops, harness.Op{At: int64(rng.Dur(time.Second, dur-5*time.Second) / time.Microsecond), Kind: "deposit", S: fmt.Sprint("d", i), N: rng.IntN(9), A: int64(rng.IntN(4)), B: int64(rng.IntN(2000)), C: int64(rng.IntN(4))})
	}
	sortOps(p)
	return p
}

func c21Gen(rng *core.Rng, tier string) *harness.Plan {
	if rng.Chance(0.5) {
		if rng.Chance(0.3) {
			return c21LateOldPlan(rng.Uint64(), []int{0, 2, 3}[rng.IntN(3)])
		}
		q := c21MemPlan(rng.Uint64(), rng.IntN(len(c21Classes)), int64(1+rng.IntN(3)), int64(rng.IntN(6)), []int64{0, 0, 0, 130}[rng.IntN(4)])
		if rng.Chance(0.5) {
			q.Params["startcut_ppm"] = int64(400000 + rng.IntN(600000)) // the restart is cut once more, inside the start-up repair
		}
		return q
	}
	p := c21Plan(rng)
	p.Params["target"] = int64(rng.IntN(9))
	p.Params["interleave"] = int64(rng.IntN(3))
	p.Params["mode"] = int64(1 + rng.IntN(3))
	p.Params["k"] = int64(rng.IntN(12))
	p.Params["hold_ms"] = int64(500 + rng.IntN(6000))
	return p
}

// c21Enumerate: for each of H seeded histories, every crash boundary in the
// window (3 modes x k) x interleaving depth x two targets.
func c21Enumerate(tier string, seed uint64) []*harness.Plan {
	histories, ks := 2, []int64{0, 1, 3}
	if tier == "thorough" {
		histories, ks = 40, []int64{0, 1, 2, 3, 5, 8, 13}
	}
	var out []*harness.Plan
	for h := 0; h < histories; h++ {
		hs := core.SplitMix64(seed ^ core.SplitMix64(uint64(h)+77))
		for _, inter := range []int64{0, 2} {
			for mode := int64(1); mode <= 3; mode++ {
				kk := []int64{0}
				if mode == 2 {
					kk = ks
				}
				for _, k := range kk {
					p := c21Plan(core.NewRng(hs))
					tr := core.NewRng(hs ^ 0x71)
					p.Params["target"] = int64(tr.IntN(9))
					p.Params["hold_ms"] = int64(1000 + tr.IntN(5000))
					p.Params["interleave"], p.Params["mode"], p.Params["k"] = inter, mode, k
					p.Params["history"] = int64(h)
					out = append(out, p)
				}
			}
		}
	}
	return append(out, c21MemEnumerate(tier, seed)...)
}

func c21Exec(p *harness.Plan) *harness.Outcome {
	if p.P("mem", 0) == 1 {
		return c21MemExec(p)
	}
	r, err := newClusterRun("C21", p)
	if err != nil {
		o := harness.NewOutcome()
		o.ToolError = err.Error()
		return o
	}
	defer r.c.Close()
	c := r.c
	nodes := int(p.P("nodes", 8))
	mon := &c21Mon{r: r, target: int(p.P("target", 0)) % nodes, interleave: int(p.P("interleave", 0)), mode: int(p.P("mode", 0)), k: int(p.P("k", 0)),
		pending: map[int]*common.Snapshot{}, written: map[int]*common.Snapshot{}}
	c.AddMonitor(mon)
	if err := c.Boot(); err != nil {
		r.out.ToolError = err.Error()
		return r.out
	}
	// hold back the other chain loops of the target while the elected
	// operator's removal is in flight, so that they have finalizations pending
	hold := time.Duration(p.P("hold_ms", 2000)) * time.Millisecond
	var holdFn func()
	holdFn = func() {
		t := c.Nodes[mon.target]
		if !t.Alive || mon.armed || c.Halt {
			if t.Alive {
				t.PollOnly = nil
			}
			return
		}
		elected := t.Node.SimElect(common.TransactionTypeNodeRemove, t.Node.GraphTimestamp)
		if mon.interleave > 0 && t.PollOnly == nil && c.Q.Now > 6*time.Second {
			t.PollOnly = map[crypto.Hash]bool{elected: true}
			c.Q.After(hold, "release", func() {
				if !mon.armed && t.Alive {
					t.PollOnly = nil
					c.Q.After(300*time.Millisecond, "hold", holdFn)
				}
			})
			return
		}
		c.Q.After(500*time.Millisecond, "hold", holdFn)
	}
	c.Q.After(time.Second, "hold", holdFn)
	r.schedule()
	c.Run(time.Duration(p.P("dur_ms", 50000)) * time.Millisecond)
	c.Nodes[mon.target].PollOnly = nil
	fin, total := 0, 0
	if !c.Halt {
		fin, total = r.settle(100*time.Second, true)
	}
	r.out.Probes["consensus_snapshot_writes"] += mon.consensusWrites
	r.out.Probes["enumerated_crashes"] += b2i(mon.crashed)
	r.out.Probes["runs_with_interleaved_other_chain_writes"] += mon.interleaved
	r.out.Probes["restart_checks"] += mon.checks
	r.out.Probes["accepted_finalized"] += fin
	r.out.Probes["accepted_total"] += total
	relabelPanic(r, "C21")
	return r.finish(mon.crashed && mon.checks > 0, map[string]any{"target": mon.target, "mode": mon.mode, "k": mon.k, "interleave": mon.interleave, "interleaved": mon.interleaved, "consensus_writes": mon.consensusWrites, "crashed": mon.crashed, "history": p.P("history", -1)})
}

func b2i(b bool) int {
	if b {
		return 1
	}
	return 0
}

func init() {
	harness.Register(&harness.Property{
		ID:    "C21",
		Level: "fault_enumeration",
		Rule: "cluster part: for each of 2 (thorough 40) seeded histories on 8-9 real nodes inside the node-operation window (real node-removal operation proposed by the elected node, 30-49 deposits keeping other chains busy, target node's other chain loops held back): every combination of crash boundary {right after the consensus snapshot write, before the consensus marker write, after the marker write + k further Store calls (k in 0,1,3; thorough 0,1,2,3,5,8,13)} x interleaving {none, other chain loops run at the boundary}; after the restart the last recorded consensus operation must be that snapshot or a later one; " +
			"membership-rig part: for every consensus class (pledge, acceptance = round zero of a new chain, removal, custodian update, universal mint) produced as the real transaction through the finalization path, every boundary {right after the snapshot write, before the consensus record write, after it + k store calls}, plus long gaps (130 / 520 ordinary snapshots, i.e. more than one page of the start-up scan) between two consensus operations; " +
			"non-trivial = the enumerated crash fired and the restart was checked; distinct = canonical-log digests. exhaustive refers to this enumerated (history x class x boundary x interleaving) grid only.",
		Components: clusterComponents,
		Assume:     clusterAssume,
		Gen:        c21Gen,
		Exec:       c21Exec,
		Enumerate:  c21Enumerate,
		QuickRuns:  64, ThoroughRuns: 3000,
		QuickWall: 240 * time.Second, ThoroughWall: 40 * time.Minute,
	})
}
