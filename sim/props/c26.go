package props

import (
	"fmt"
	"strings"
	"time"

	"verifsim/core"
	"verifsim/harness"
	"verifsim/storerig"

	"github.com/MixinNetwork/mixin/common"
	"github.com/MixinNetwork/mixin/crypto"
	"github.com/MixinNetwork/mixin/storage"
)

// C26 — node work is credited exactly once per snapshot.
//
// R3: per-chain rounds with random snapshot sets and signer sets are
// submitted through WriteRoundWork as monotone prefixes with repeats (what
// the aggregator does after a retry or a crash), older rounds are
// re-submitted, days change between rounds, and the store is restarted
// between submissions. Oracle: one proposal credit to the proposer and one
// signing credit to every other signer per distinct snapshot and day.

const c26Day = uint64(24 * time.Hour)

func c26Gen(rng *core.Rng, tier string) *harness.Plan {
	p := &harness.Plan{Seed: rng.Uint64(), Params: map[string]int64{}}
	if rng.Chance(0.12) {
		c26ByzGen(rng, tier, p) // cluster part with a Byzantine leader, see c26byz.go
		return p
	}
	if rng.Chance(0.08) {
		c26DayGen(rng, tier, p) // work loops at different distances behind their chains over a day change, see c26day.go
		return p
	}
	p.Params["chains"] = int64(1 + rng.IntN(4))
	if rng.Chance(0.25) {
		// concurrent mode (rig R3c): several chains' aggregators submit at the same time, see c26conc.go
		p.Params["conc"] = 1
		p.Params["chains"] = int64(2 + rng.IntN(3))
		p.Params["rounds"] = int64(6 + rng.IntN(10))
		if tier == "thorough" {
			p.Params["rounds"] = int64(10 + rng.IntN(40))
		}
		return p
	}
	if rng.Chance(0.5) {
		p.Params["commit_stop"] = 1
	}
	n := 20 + rng.IntN(80)
	if tier == "thorough" {
		n = 60 + rng.IntN(500)
	}
	w := []int{4 + rng.IntN(5), 2 + rng.IntN(4), 1 + rng.IntN(3), rng.IntN(3), rng.IntN(2), 1 + rng.IntN(2)}
	kinds := []string{"grow", "repeat", "next", "stale", "restart", "query"}
	for i := 0; i < n; i++ {
		op := harness.Op{Kind: kinds[weighted(rng, w)], N: rng.IntN(int(p.Params["chains"]))}
		op.A = int64(1 + rng.IntN(3)) // growth
		op.B = int64(rng.IntN(3))     // day advance selector for "next"
		op.C = int64(rng.Uint64() >> 1)
		p.Ops = append(p.Ops, op)
	}
	return p
}

type c26Chain struct {
	round   uint64
	started bool
	full    []*common.SnapshotWork // all snapshots of the current round (generated lazily)
	sent    int                    // prefix length submitted so far
	ts      uint64
	prev    []*common.SnapshotWork
	prevNum uint64
}

func c26Exec(p *harness.Plan) *harness.Outcome {
	if p.P("byz_leader", 0) == 1 {
		return c26ByzExec(p)
	}
	if p.P("conc", 0) == 1 {
		return c26Conc(p)
	}
	if p.P("day_change", 0) == 1 {
		return c26DayExec(p)
	}
	c := newCtx("C26")
	f, err := storerig.NewFix(7)
	if err != nil {
		return c.tool(err)
	}
	defer f.Close()
	chains := int(p.P("chains", 2))
	rng := core.NewRng(p.Seed)
	st := make([]*c26Chain, chains)
	for i := range st {
		st[i] = &c26Chain{ts: f.BaseTime() + uint64(i)*uint64(time.Second)}
	}
	lead := map[crypto.Hash]map[uint32]uint64{}
	sign := map[crypto.Hash]map[uint32]uint64{}
	credited := map[crypto.Hash]bool{}
	days := map[uint32]bool{}
	add := func(m map[crypto.Hash]map[uint32]uint64, id crypto.Hash, day uint32) {
		if m[id] == nil {
			m[id] = map[uint32]uint64{}
		}
		m[id][day]++
	}
	credit := func(node int, works []*common.SnapshotWork) {
		for _, w := range works {
			if credited[w.Hash] {
				continue
			}
			credited[w.Hash] = true
			day := uint32(w.Timestamp / c26Day)
			days[day] = true
			for _, s := range w.Signers {
				if s == f.NodeIds[node] {
					add(lead, s, day)
				} else {
					add(sign, s, day)
				}
			}
		}
	}
	verify := func(i int) *harness.Outcome {
		for day := range days {
			got, err := f.Store.ListNodeWorks(f.NodeIds, day)
			if err != nil {
				return c.viol("list-error", "%v", err)
			}
			c.out.Evals++
			for _, id := range f.NodeIds {
				wl, ws := lead[id][day], sign[id][day]
				if got[id][0] != wl || got[id][1] != ws {
					return c.viol("work-mismatch", "op %d: node %s day %d has (lead,sign)=(%d,%d), model (%d,%d)", i, id.String()[:8], day, got[id][0], got[id][1], wl, ws)
				}
			}
		}
		return nil
	}
	extend := func(ch *c26Chain, node int, k int) {
		for ; k > 0; k-- {
			ch.ts += uint64(1+rng.IntN(50)) * uint64(time.Millisecond)
			w := &common.SnapshotWork{Timestamp: ch.ts, Signers: []crypto.Hash{f.NodeIds[node]}}
			w.Hash = crypto.Blake3Hash([]byte(fmt.Sprintf("work%d-%d-%d", node, ch.round, ch.ts)))
			for o := range f.NodeIds {
				if o != node && rng.Chance(0.6) {
					w.Signers = append(w.Signers, f.NodeIds[o])
				}
			}
			ch.full = append(ch.full, w)
		}
	}
	submits := 0
	for i, op := range p.Ops {
		node := op.N % chains
		ch := st[node]
		var res *harness.Outcome
		switch op.Kind {
		case "grow", "repeat":
			if op.Kind == "grow" || len(ch.full) == 0 {
				// keep every snapshot of a round within one day
				extend(ch, node, int(op.A))
				ch.sent = len(ch.full)
			}
			works := ch.full[:ch.sent]
			// some submissions are cut right before the k-th Badger commit they issue (process stop); the
			// store is reopened and, like the aggregator after a restart, the round is submitted again
			if p.P("commit_stop", 0) == 1 && op.C%4 == 0 {
				stopAt, commits, stopped := 1+int(op.C/4)%2, 0, false
				storage.SimPoint = func(pt string) {
					if strings.HasPrefix(pt, "commit:") {
						commits++
						if commits == stopAt {
							panic(c15Stop{})
						}
					}
				}
				g := c.guard("write-panic", func() {
					defer func() {
						if r := recover(); r != nil {
							if _, ok := r.(c15Stop); !ok {
								panic(r)
							}
							stopped = true
						}
					}()
					_ = f.Store.WriteRoundWork(f.NodeIds[node], ch.round, works, true)
				})
				storage.SimPoint = nil
				if g != nil {
					return g
				}
				if stopped {
					c.out.Faults["crash.before_commit_inside_WriteRoundWork"]++
					c.logf("stop n%d r%d before commit %d", node, ch.round, stopAt)
					if err := f.Reopen(false); err != nil {
						return c.tool(err)
					}
				}
			}
			if g := c.guard("write-panic", func() {
				err = f.Store.WriteRoundWork(f.NodeIds[node], ch.round, works, true)
			}); g != nil {
				return g
			}
			c.logf("%s n%d r%d %d err=%v", op.Kind, node, ch.round, len(works), err != nil)
			if err != nil {
				return c.viol("write-error", "op %d: %v", i, err)
			}
			credit(node, works)
			submits++
			if op.Kind == "repeat" {
				c.out.Probes["repeat"]++
			}
			res = verify(i)
		case "next":
			if len(ch.full) == 0 {
				continue
			}
			ch.prev, ch.prevNum = ch.full, ch.round
			ch.round++
			ch.full, ch.sent = nil, 0
			switch op.B {
			case 1:
				ch.ts += uint64(4 * time.Second)
			case 2: // cross into the next day
				ch.ts = (ch.ts/c26Day+1)*c26Day + uint64(op.C%int64(time.Hour))
				c.out.Probes["day_change"]++
			default:
				ch.ts += uint64(3 * time.Second)
			}
			c.logf("next n%d r%d", node, ch.round)
		case "stale":
			if ch.prev == nil || ch.sent == 0 {
				continue // the durable offset has not moved past prev yet
			}
			if g := c.guard("write-panic", func() {
				err = f.Store.WriteRoundWork(f.NodeIds[node], ch.prevNum, ch.prev, true)
			}); g != nil {
				return g
			}
			c.logf("stale n%d r%d err=%v", node, ch.prevNum, err != nil)
			if err != nil {
				return c.viol("write-error", "op %d: stale resubmission failed: %v", i, err)
			}
			c.out.Probes["stale_resubmit"]++
			res = verify(i)
		case "restart":
			if err := f.Reopen(false); err != nil {
				return c.tool(err)
			}
			c.out.Faults["restart"]++
			c.logf("restart")
			res = verify(i)
		case "query":
			res = verify(i)
			for n := 0; n < chains; n++ {
				off, err := f.Store.ReadWorkOffset(f.NodeIds[n])
				if err != nil {
					return c.viol("offset-error", "%v", err)
				}
				want := st[n].round
				if st[n].sent == 0 && want > 0 {
					want--
				}
				if off != want {
					return c.viol("offset-mismatch", "op %d: work offset of chain %d is %d, model %d", i, n, off, want)
				}
			}
		}
		if res != nil {
			return res
		}
	}
	return c.done(submits > 1, map[string]any{"submissions": submits, "snapshots_credited": len(credited), "days": len(days)})
}

func init() {
	harness.Register(&harness.Property{
		ID:    "C26",
		Level: "exploration",
		Rule: "seeded per-chain submission histories through WriteRoundWork: growing prefixes, exact repeats, re-submission of the previous round, round and day changes, restarts; compared after every step with a once-per-snapshot credit model via ListNodeWorks; " +
			"in half of the runs a quarter of the submissions are stopped right before their 1st/2nd commit, the store reopened and the round submitted again; 12% of the runs are cluster runs with one Byzantine proposer (the simulator runs its side of the signing round among 6 real honest nodes and omits it from the signer mask; 25% controls with the mask complete), after which the chain advances and the real work aggregators of every node run, also after a restart (no crash, agreement on finality, history converges); " +
			"non-trivial = at least two submissions; distinct = canonical-log digests",
		Components: r3Components,
		Assume:     r3Assume,
		Gen:        c26Gen,
		Exec:       c26Exec,
		QuickRuns:  300, ThoroughRuns: 6000,
		QuickWall: 40 * time.Second, ThoroughWall: 8 * time.Minute,
	})
}
