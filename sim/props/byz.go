package props

import (
	"encoding/binary"

	"verifsim/cluster"
	"verifsim/core"

	"github.com/MixinNetwork/mixin/common"
	"github.com/MixinNetwork/mixin/crypto"
	"github.com/MixinNetwork/mixin/p2p"
)

// Wire helpers for the Byzantine injector. Frames are re-assembled from
// their documented layout; the simulator holds every node's private key, so
// signed envelopes are re-signed after tampering.

func buildAnnouncement(s *common.Snapshot, R crypto.Key, spend crypto.Key) []byte {
	data := append(append([]byte{}, R[:]...), s.VersionedMarshal()...)
	sig := spend.Sign(crypto.Blake3Hash(data))
	out := []byte{p2p.PeerMessageTypeBatchSnapshotAnnouncement}
	out = append(out, sig[:]...)
	return append(out, data...)
}

func buildFinalization(s *common.Snapshot) []byte {
	return append([]byte{p2p.PeerMessageTypeBatchSnapshotFinalization}, s.VersionedMarshal()...)
}

func buildTxBundle(txs []*common.VersionedTransaction, finalized bool) []byte {
	typ := byte(p2p.PeerMessageTypeTransactionBundle)
	if finalized {
		typ = p2p.PeerMessageTypeFinalizedTransactionBundle
	}
	data := []byte{typ, byte(len(txs))}
	for _, tx := range txs {
		pl := tx.Marshal()
		data = binary.BigEndian.AppendUint32(data, uint32(len(pl)))
		data = append(data, pl...)
	}
	return data
}

func buildFullChallenge(s *common.Snapshot, cosi *crypto.CosiSignature, commitment, challenge crypto.Key, txs []*common.VersionedTransaction) []byte {
	c := copySnapshot(s)
	c.Signature = cosi
	data := []byte{p2p.PeerMessageTypeBatchFullChallenge}
	pl := c.VersionedMarshal()
	data = binary.BigEndian.AppendUint32(data, uint32(len(pl)))
	data = append(data, pl...)
	data = append(data, commitment[:]...)
	data = append(data, challenge[:]...)
	data = append(data, byte(len(txs)))
	for _, tx := range txs {
		b := tx.Marshal()
		data = binary.BigEndian.AppendUint32(data, uint32(len(b)))
		data = append(data, b...)
	}
	return data
}

func copySnapshot(s *common.Snapshot) *common.Snapshot {
	c := *s
	if s.References != nil {
		c.References = s.References.Copy()
	}
	c.Transactions = append([]crypto.Hash{}, s.Transactions...)
	if s.Signature != nil {
		sig := *s.Signature
		c.Signature = &sig
	}
	return &c
}

// refTamper is a Byzantine relay on the announcements of one node: it
// re-sends them with self / stale / unknown / regressing references.
type refTamper struct {
	cluster.BaseMonitor
	r    *crun
	rng  *core.Rng
	byz  int
	rate float64
}

func newRefTamper(r *crun) *refTamper {
	rng := core.NewRng(core.SplitMix64(r.plan.Seed ^ 0xb12))
	return &refTamper{r: r, rng: rng, byz: rng.IntN(int(r.plan.P("nodes", 7))), rate: 0.5}
}

func (t *refTamper) OnSend(from, to *cluster.SNode, data []byte) [][]byte {
	typ := p2p.SimMessageType(data)
	if from.Idx != t.byz || (typ != p2p.PeerMessageTypeBatchSnapshotAnnouncement && typ != p2p.PeerMessageTypeBatchFullChallenge) {
		return nil
	}
	if !to.Alive || !t.rng.Chance(t.rate) {
		return nil
	}
	msg, err := p2p.SimParse(data)
	if err != nil || msg.Snapshot == nil || msg.Snapshot.References == nil {
		return nil
	}
	s := copySnapshot(msg.Snapshot)
	kind := t.rng.IntN(5)
	switch kind {
	case 0: // external reference to the proposer's own chain
		s.References.External = s.References.Self
	case 1: // unknown external round
		var h crypto.Hash
		t.rng.Bytes(h[:])
		s.References.External = h
	case 2: // wrong self reference
		var h crypto.Hash
		t.rng.Bytes(h[:])
		s.References.Self = h
	case 3: // stale (regressing) external: a final round below the receiver's stored link
		if ext, _ := to.Store.ReadRound(s.References.External); ext != nil {
			link, _ := to.Store.ReadLink(s.NodeId, ext.NodeId)
			if link > 0 {
				old := uint64(t.rng.IntN(int(link)))
				if snaps, err := to.Store.ReadSnapshotsForNodeRound(ext.NodeId, old); err == nil && len(snaps) > 0 {
					_, h := roundHashRef(ext.NodeId, old, snaps)
					s.References.External = h
					t.r.out.Faults["byz.regressing_reference"]++
				}
			}
		}
	case 4: // announce the next round early, with unchanged references
		s.RoundNumber++
	}
	t.r.out.Faults["byz.proposal_references"]++
	var forged []byte
	if typ == p2p.PeerMessageTypeBatchSnapshotAnnouncement {
		forged = buildAnnouncement(s, msg.Commitment, from.Signer.PrivateSpendKey)
	} else {
		cosi := msg.Cosi
		forged = buildFullChallenge(s, &cosi, msg.Commitment, msg.Challenge, msg.Transactions)
	}
	if t.rng.Chance(0.5) {
		return [][]byte{forged}
	}
	return [][]byte{data, forged} // equivocate: honest and forged copies
}
