package props

import (
	"bytes"
	"fmt"
	"sort"
	"time"

	"verifsim/cluster"
	"verifsim/harness"

	"github.com/MixinNetwork/mixin/common"
	"github.com/MixinNetwork/mixin/crypto"
)

// C34 — custodian updates are accepted only in canonical, fully signed form.
//
// Membership rig histories in which the custodian state itself evolves:
// every valid update installs a new custodian account and a new entry set
// (keys kept, moved between members, or fresh), so later updates are judged
// against random previous states. Before each valid update the simulator
// injects validly certified snapshots carrying defective updates (one defect
// each); none may be stored by any node. After each valid update and after
// restarts every node's durable custodian state is read back and compared
// with the rig's model, entry by entry, for instants around the update.

type c34Defect struct {
	name string
	what string
}

var c34Defects = []c34Defect{
	{"unsorted", "entries not sorted by custodian key"},
	{"duplicate-custodian-key", "two entries share a custodian key"},
	{"duplicate-payee", "two entries share a payee"},
	{"payee-equals-custodian", "an entry whose payee key is its custodian key"},
	{"byte-flip", "one flipped bit in the update extra"},
	{"approval-by-new-custodian", "approval signed by the incoming instead of the current custodian"},
	{"approval-by-stale-custodian", "approval signed by a custodian that was already replaced"},
	{"underpaid", "pays less than the price of its new and changed entries"},
	{"six-entries", "fewer than seven entries"},
	{"unknown-node", "an entry for a node identity that never pledged"},
	{"foreign-payee", "an entry naming another member's payee"},
	{"signer-signature-by-payee", "an entry whose node-signer signature was made with the payee key"},
	{"payee-signature-by-signer", "an entry whose payee signature was made with the signer key"},
	{"custodian-signature-by-payee", "an entry whose custodian signature was made with the payee key"},
	{"forbidden-hour", "stamped inside the mint window or the hour on either side"},
	{"non-elected-proposer", "proposed by a node that is not the elected operator"},
	{"same-account-changed-set", "keeps the custodian account but changes the key set"},
	{"stale-deposit-authority", "a deposit authorized by the replaced custodian"},
}

func c34Variant(m *memRig, d c34Defect) {
	c := m.c
	prev := m.custNow()
	account, entries := m.custNext()
	raw := make([][]byte, len(entries))
	for i, e := range entries {
		raw[i] = m.custEncode(e)
	}
	sort.SliceStable(raw, func(i, j int) bool { return string(raw[i][1:33]) < string(raw[j][1:33]) })
	approver := &prev.account
	price := custPrice(prev, entries)
	pay := price + 300 // generous, so that only the injected defect can be the reason for refusal
	sorted := true
	onElected := true
	switch d.name {
	case "unsorted":
		i := m.rng.IntN(len(raw) - 1)
		raw[i], raw[i+1] = raw[i+1], raw[i]
		sorted = false
	case "duplicate-custodian-key":
		i, j := m.rng.IntN(len(entries)), m.rng.IntN(len(entries)-1)
		if j >= i {
			j++
		}
		entries[j].cust = entries[i].cust
		raw = raw[:0]
		for _, e := range entries {
			raw = append(raw, m.custEncode(e))
		}
	case "duplicate-payee":
		i := m.rng.IntN(len(entries))
		raw = append(raw, m.custEncode(custEntry{entries[i].node, m.freshAccount("dup")}))
	case "payee-equals-custodian":
		i := m.rng.IntN(len(entries))
		entries[i].cust = entries[i].node.payee
		raw = raw[:0]
		for _, e := range entries {
			raw = append(raw, m.custEncode(e))
		}
	case "approval-by-new-custodian":
		approver = &account
	case "approval-by-stale-custodian":
		if len(m.cust) < 2 {
			m.r.out.Probes["variant_not_buildable:"+d.name]++
			return
		}
		approver = &m.cust[m.rng.IntN(len(m.cust)-1)].account
	case "underpaid":
		if price < 2 {
			m.r.out.Probes["variant_not_buildable:"+d.name]++
			return
		}
		pay = price - 1 - m.rng.IntN(min(price-1, 3))
	case "six-entries":
		raw = raw[:6]
	case "unknown-node":
		id := m.fresh()
		if id == nil {
			m.r.out.Probes["variant_not_buildable:"+d.name]++
			return
		}
		raw = append(raw, m.custEncode(custEntry{id, m.freshAccount("unknown")}))
	case "foreign-payee":
		i, j := m.rng.IntN(len(entries)), m.rng.IntN(len(entries)-1)
		if j >= i {
			j++
		}
		a, b := entries[i], entries[j]
		// drop b's own entry, give a the payee of b
		var keep [][]byte
		for k, e := range entries {
			if k != i && k != j {
				keep = append(keep, m.custEncode(e))
			}
		}
		if len(keep) < 6 {
			m.r.out.Probes["variant_not_buildable:"+d.name]++
			return
		}
		keep = append(keep, common.EncodeCustodianNode(&a.cust, &b.node.payee, &a.node.signer.PrivateSpendKey, &b.node.payee.PrivateSpendKey, &a.cust.PrivateSpendKey, c.NetworkId))
		raw = keep
	case "signer-signature-by-payee", "payee-signature-by-signer", "custodian-signature-by-payee":
		i := m.rng.IntN(len(raw))
		var e custEntry
		for _, x := range entries {
			if bytes.Equal(x.cust.PublicSpendKey[:], raw[i][1:33]) {
				e = x
			}
		}
		eh := crypto.Blake3Hash(raw[i][:161])
		switch d.name {
		case "signer-signature-by-payee":
			sig := e.node.payee.PrivateSpendKey.Sign(eh)
			copy(raw[i][161:225], sig[:])
		case "payee-signature-by-signer":
			sig := e.node.signer.PrivateSpendKey.Sign(eh)
			copy(raw[i][225:289], sig[:])
		default:
			sig := e.node.payee.PrivateSpendKey.Sign(eh)
			copy(raw[i][289:353], sig[:])
		}
	case "forbidden-hour":
		m.jumpTo(6+m.rng.IntN(5), 0)
	case "non-elected-proposer":
		onElected = false
	case "same-account-changed-set":
		account = prev.account
	case "stale-deposit-authority":
		if len(m.cust) < 2 {
			m.r.out.Probes["variant_not_buildable:"+d.name]++
			return
		}
		keep := c.Domain
		c.Domain = m.cust[m.rng.IntN(len(m.cust)-1)].account
		m.seq++
		tx, _ := c.MakeDeposit(cluster.AssetBTC, common.NewIntegerFromString("0.75"), fmt.Sprintf("stale-auth-%d", m.seq), 0, []int{0}, 1)
		c.Domain = keep
		acc := m.leaders()
		refused(m, "C34", d.name, m.placeOn(acc[m.rng.IntN(len(acc))].id, tx, false), d.what)
		return
	}
	if pay < 1 {
		pay = 1
	}
	extra := custAssemble(account, raw, approver, sorted)
	if d.name == "byte-flip" {
		pos := m.rng.IntN(len(extra))
		extra[pos] ^= 1 << uint(m.rng.IntN(8))
	}
	amount := common.NewInteger(uint64(pay))
	coin := m.fund(amount)
	if coin == nil {
		return
	}
	ts := m.now()
	tx := m.custTx(account, extra, coin, amount, m.lastConsensusTx())
	owner := m.ref().Node.SimElect(common.TransactionTypeCustodianUpdateNodes, ts)
	if !onElected {
		owner = m.otherMember(owner)
	}
	refused(m, "C34", d.name, m.placeOn(owner, tx, false), d.what)
}

func c34Variants(m *memRig, kind string) {
	if kind != "custodian" {
		return
	}
	m.custJump()
	n := 2 + m.rng.IntN(3)
	for i := 0; i < n && !m.c.Halt; i++ {
		c34Variant(m, c34Defects[m.rng.IntN(len(c34Defects))])
		if i == 0 && m.rng.Chance(0.3) {
			m.custJump()
		}
	}
}

// c34State compares every live node's durable custodian history with the model.
func c34State(m *memRig, checks *int) {
	c := m.c
	m.custNow()
	for i := 0; i < c.Cfg.Nodes && !c.Halt; i++ {
		n := c.Nodes[i]
		if !n.Alive {
			continue
		}
		all, err := n.Store.ListCustodianUpdates()
		if err != nil {
			c.Violate("C34", "custodian-history-unreadable", err.Error(), n)
			return
		}
		if len(all) != len(m.cust) {
			c.Violate("C34", "custodian-history-length-differs", fmt.Sprintf("n%d records %d updates, %d were finalized", i, len(all), len(m.cust)), n)
			return
		}
		for k, st := range m.cust {
			for _, ts := range []uint64{st.ts, st.ts + 1, st.ts - 1} {
				*checks++
				want := st
				if ts < st.ts {
					if k == 0 {
						continue
					}
					want = m.cust[k-1]
				}
				got, err := n.Store.ReadCustodian(ts)
				if err != nil || got == nil {
					c.Violate("C34", "custodian-state-unreadable", fmt.Sprintf("n%d at %d: %v", i, ts, err), n)
					return
				}
				if problem := c34Compare(want, got); problem != "" {
					c.Violate("C34", "durable-custodian-state-differs", fmt.Sprintf("n%d at %d (update %d): %s", i, ts, k, problem), n)
					return
				}
			}
		}
	}
}

func c34Compare(want *custState, got *common.CustodianUpdateRequest) string {
	if got.Custodian == nil || got.Custodian.PublicSpendKey != want.account.PublicSpendKey || got.Custodian.PublicViewKey != want.account.PublicViewKey {
		return "custodian account differs"
	}
	if got.Transaction != want.tx {
		return fmt.Sprintf("transaction %s, expected %s", got.Transaction.String()[:8], want.tx.String()[:8])
	}
	if got.Timestamp != want.ts {
		return fmt.Sprintf("timestamp %d, expected %d", got.Timestamp, want.ts)
	}
	if len(got.Nodes) != len(want.entries) {
		return fmt.Sprintf("%d entries, expected %d", len(got.Nodes), len(want.entries))
	}
	exp := append([]custEntry{}, want.entries...)
	sort.Slice(exp, func(i, j int) bool {
		return bytes.Compare(exp[i].cust.PublicSpendKey[:], exp[j].cust.PublicSpendKey[:]) < 0
	})
	for i, e := range exp {
		g := got.Nodes[i]
		if g.Custodian.PublicSpendKey != e.cust.PublicSpendKey || g.Custodian.PublicViewKey != e.cust.PublicViewKey {
			return fmt.Sprintf("entry %d custodian key differs", i)
		}
		if g.Payee.PublicSpendKey != e.node.payee.PublicSpendKey || g.Payee.PublicViewKey != e.node.payee.PublicViewKey {
			return fmt.Sprintf("entry %d payee differs", i)
		}
		if len(g.Extra) < 161 || !bytes.Equal(g.Extra[129:161], e.node.id[:]) {
			return fmt.Sprintf("entry %d node id differs", i)
		}
	}
	return ""
}

func c34Exec(p *harness.Plan) *harness.Outcome {
	checks := 0
	after := func(m *memRig, kind string) {
		if kind == "mem.custodian" || kind == "mem.restart" {
			c34State(m, &checks)
		}
	}
	r, m, bad := runMembership("C34", p, after, c34Variants)
	if bad != nil {
		return bad
	}
	defer r.c.Close()
	if !r.c.Halt {
		r.c.Run(r.c.Q.Now + 3*time.Second)
		for _, it := range m.refused {
			if w := m.anywhere(it); w >= 0 && !r.c.Halt {
				r.c.Violate("C34", "forbidden-operation-finalized:late", fmt.Sprintf("n%d stored forbidden snapshot %s", w, it.snap.Hash.String()[:8]), r.c.Nodes[w])
			}
		}
		c34State(m, &checks)
	}
	r.out.Evals += checks
	r.out.Probes["state_comparisons"] += checks
	r.out.Probes["custodian_updates_finalized"] += len(m.cust) - 1
	r.out.Probes["forbidden_variants_injected"] += len(m.refused)
	relabelPanic(r, "C34")
	return r.finish(len(m.cust) > 1 && len(m.refused) > 0, map[string]any{"updates": len(m.cust) - 1, "forbidden_variants": len(m.refused), "records": len(m.records)})
}

func init() {
	harness.Register(&harness.Property{
		ID:    "C34",
		Level: "exploration",
		Rule: "seeded membership histories in which the custodian state evolves (each valid update installs a fresh custodian account and 7..all-member entries whose custodian keys are kept, moved to another member or fresh; price and payment drawn accordingly; pledge / accept / remove / restart interleaved); before each valid update 2-4 validly certified snapshots carrying an update with exactly one defect out of 18 kinds (order, duplicate keys, each of the three entry signatures, approval by the wrong or an already replaced custodian, underpayment, entry count, unknown node, foreign payee, one flipped bit anywhere, forbidden hour, non-elected proposer, account kept with changed set, deposit authorized by a replaced custodian) are injected and must be stored nowhere; after each valid update, each restart and at the end every node's durable custodian history is compared entry by entry with the rig's model at t-1, t, t+1; " +
			"non-trivial = at least one update finalized and one defective update injected; distinct = canonical-log digests",
		Components: clusterComponents,
		Assume:     append([]string{"custodian sets bounded by the rig's membership (7..~15 entries rather than 50)"}, clusterAssume...),
		Gen:        memGen("C34"),
		Exec:       c34Exec,
		QuickRuns:  64, ThoroughRuns: 2000,
		QuickWall: 30 * time.Second, ThoroughWall: 12 * time.Minute,
	})
}
