package props

import (
	"fmt"
	"time"

	"verifsim/core"
	"verifsim/harness"
	"verifsim/storerig"

	"github.com/MixinNetwork/mixin/common"
	"github.com/MixinNetwork/mixin/crypto"
)

// C04 — a one-time output key is bound to at most one transaction.
//
// R3: simulated clients reserve key sets (admission path and fork path),
// validate transactions through the real Validate (which reserves their
// output keys), and finalize transactions whose output keys overlap inside
// and across transactions, in both orders of reservation vs finalization,
// with restarts. Oracle: first-binder-wins map; a finalization that hits a
// key of another transaction must fail and change nothing (dump equality).

type c04Tx struct {
	ver       *common.VersionedTransaction
	hash      crypto.Hash
	keys      []int
	dup       bool
	admitted  bool
	finalized bool
	rival     int // index of a transaction spending the same deposit, or -1
}

func c04Gen(rng *core.Rng, tier string) *harness.Plan {
	p := &harness.Plan{Seed: rng.Uint64(), Params: map[string]int64{}}
	if rng.Chance(0.35) {
		// concurrent mode (rig R3c): rounds of overlapping key reservations, see c04conc.go
		p.Params["conc"] = 1
		p.Params["rounds"] = int64(6 + rng.IntN(10))
		if tier == "thorough" {
			p.Params["rounds"] = int64(10 + rng.IntN(40))
		}
	}
	p.Params["keys"] = int64(3 + rng.IntN(5))
	p.Params["txs"] = int64(4 + rng.IntN(8))
	n := 15 + rng.IntN(60)
	if tier == "thorough" {
		n = 40 + rng.IntN(250)
	}
	w := []int{3 + rng.IntN(4), 1 + rng.IntN(3), 3 + rng.IntN(4), 2 + rng.IntN(4), rng.IntN(2), 2 + rng.IntN(3)}
	kinds := []string{"lockkeys", "forklockkeys", "validate", "finalize", "restart", "admit"}
	for i := 0; i < n; i++ {
		p.Ops = append(p.Ops, harness.Op{Kind: kinds[weighted(rng, w)], N: rng.IntN(4), A: int64(rng.IntN(1000)), M: rng.IntN(7)})
	}
	return p
}

func c04Exec(p *harness.Plan) *harness.Outcome {
	c := newCtx("C04")
	f, err := storerig.NewFix(7)
	if err != nil {
		return c.tool(err)
	}
	defer f.Close()
	rng := core.NewRng(p.Seed)
	nK, nT := int(p.P("keys", 4)), int(p.P("txs", 6))
	keys := make([]*crypto.Key, nK)
	for i := range keys {
		k := crypto.NewKeyFromSeed(append(make([]byte, 62), byte(i+1), 0x04)).Public()
		keys[i] = &k
	}
	mask := crypto.NewKeyFromSeed(append(make([]byte, 63), 0x77)).Public()
	var txs []*c04Tx
	for j := 0; j < nT; j++ {
		tx := common.NewTransactionV5(common.BitcoinAssetId)
		src := j
		t := &c04Tx{rival: -1}
		if j%2 == 1 && rng.Chance(0.5) && !txs[j-1].dup && len(txs[j-1].ver.Outputs) == 1 {
			// a rival: spends the same deposit as its predecessor, pays to (partly) other keys
			src = j - 1
			t.rival, txs[j-1].rival = j-1, j
			tx.Extra = []byte("rival") // never the same transaction as its predecessor, even with the same keys
		}
		tx.AddDepositInput(&common.DepositData{Chain: common.BitcoinAssetId, AssetKey: "c6d0c728", Transaction: fmt.Sprintf("c04-%d", src), Index: 0, Amount: common.NewInteger(1)})
		nk := 1 + rng.IntN(3)
		out := &common.Output{Type: common.OutputTypeScript, Amount: common.NewInteger(1), Script: common.NewThresholdScript(1), Mask: mask}
		used := map[int]bool{}
		for len(t.keys) < nk {
			k := rng.IntN(nK)
			if used[k] {
				continue
			}
			used[k] = true
			t.keys = append(t.keys, k)
			out.Keys = append(out.Keys, keys[k])
		}
		tx.Outputs = append(tx.Outputs, out)
		if t.rival < 0 && rng.Chance(0.2) {
			t.dup = true
			if rng.Chance(0.5) {
				out.Keys = append(out.Keys, keys[t.keys[0]])
			} else {
				// the repeated key sits in a second output
				tx.Outputs = append(tx.Outputs, &common.Output{Type: common.OutputTypeScript, Amount: common.NewInteger(1), Script: common.NewThresholdScript(1), Mask: mask, Keys: []*crypto.Key{keys[t.keys[rng.IntN(len(t.keys))]]}})
				tx.Inputs[0].Deposit.Amount = common.NewInteger(2)
			}
		}
		signed := &common.SignedTransaction{Transaction: *tx}
		if err := signed.SignRaw(f.Domain.PrivateSpendKey); err != nil {
			return c.tool(err)
		}
		// what a node holds is always a decoded transaction: every key is its
		// own object, equal keys are equal by value only
		dec, err := common.UnmarshalVersionedTransaction(signed.AsVersioned().Marshal())
		if err != nil {
			return c.tool(err)
		}
		t.ver = dec
		t.hash = t.ver.PayloadHash()
		txs = append(txs, t)
	}
	if p.P("conc", 0) == 1 {
		return c04Conc(c, f, p, rng, keys, txs)
	}
	binding := make([]int, nK)
	for i := range binding {
		binding[i] = -1
	}
	conflicts := func(ti int) bool {
		for _, k := range txs[ti].keys {
			if binding[k] >= 0 && binding[k] != ti {
				return true
			}
		}
		return false
	}
	bind := func(ti int) {
		for _, k := range txs[ti].keys {
			binding[k] = ti
		}
	}
	verify := func(i int) *harness.Outcome {
		for k := range keys {
			h, err := f.Store.ReadGhostKeyLock(*keys[k])
			if err != nil {
				return c.viol("read-error", "op %d: %v", i, err)
			}
			c.out.Evals++
			if binding[k] < 0 {
				if h != nil {
					return c.viol("binding-mismatch", "op %d: key %d bound to %s, model unbound", i, k, h.String()[:8])
				}
			} else if h == nil || *h != txs[binding[k]].hash {
				return c.viol("binding-mismatch", "op %d: key %d binding differs from model (tx %d)", i, k, binding[k])
			}
		}
		return nil
	}
	ts := f.BaseTime()
	granted, refused, finOK, finRefused, dupRejected := 0, 0, 0, 0, 0
	for i, op := range p.Ops {
		ti := int(op.A) % nT
		t := txs[ti]
		switch op.Kind {
		case "lockkeys", "forklockkeys":
			fork := op.Kind == "forklockkeys"
			ok := !conflicts(ti) && !t.dup
			var lerr error
			if g := c.guard("lock-panic", func() { lerr = f.Store.LockGhostKeys(allOutputKeys(t.ver), t.hash, fork) }); g != nil {
				return g
			}
			c.logf("c%d %s tx%d keys=%v dup=%v err=%v", op.N, op.Kind, ti, t.keys, t.dup, lerr != nil)
			if lerr == nil && !ok {
				return c.viol("key-rebound", "op %d: keys of transaction %d reserved although one belongs to another transaction or repeats (fork=%v)", i, ti, fork)
			}
			if lerr != nil && ok {
				return c.viol("reserve-refused", "op %d: reservation of free/own keys failed: %v", i, lerr)
			}
			if ok {
				bind(ti)
				granted++
			} else {
				refused++
			}
		case "validate":
			if t.rival >= 0 && (txs[t.rival].admitted || txs[t.rival].finalized) {
				continue // the deposit is held by the rival: refusal is C03's business, not a key matter
			}
			ok := !conflicts(ti) && !t.dup
			var verr error
			if g := c.guard("validate-panic", func() { verr = t.ver.Validate(f.Store, ts, false) }); g != nil {
				return g
			}
			c.logf("c%d validate tx%d dup=%v err=%v", op.N, ti, t.dup, verr != nil)
			if verr == nil && !ok {
				sig := "validated-with-foreign-key"
				if t.dup {
					sig = "validated-with-repeated-key"
				}
				return c.viol(sig, "op %d: transaction %d passed validation (dup=%v, conflict=%v)", i, ti, t.dup, conflicts(ti))
			}
			if verr != nil && ok && !t.finalized {
				return c.viol("valid-rejected", "op %d: transaction %d rejected: %v", i, ti, verr)
			}
			if verr == nil {
				bind(ti)
				granted++
			} else if t.dup {
				dupRejected++
			}
		case "admit":
			// admission as the kernel does it: validation (reserves the output keys), input locks, body
			if t.dup || t.admitted || t.finalized || conflicts(ti) || (t.rival >= 0 && (txs[t.rival].admitted || txs[t.rival].finalized)) {
				continue
			}
			if err := t.ver.Validate(f.Store, ts, false); err != nil {
				return c.viol("valid-rejected", "op %d: transaction %d rejected: %v", i, ti, err)
			}
			bind(ti)
			if err := f.Admit(t.ver, false); err != nil {
				return c.tool(fmt.Errorf("admit: %w", err))
			}
			t.admitted = true
			granted++
		case "finalize":
			if t.dup || t.finalized {
				continue
			}
			if t.rival >= 0 && txs[t.rival].finalized {
				continue // the deposit is spent by the finalized rival
			}
			if !t.admitted {
				fork := t.rival >= 0 && txs[t.rival].admitted
				if err := f.Admit(t.ver, fork); err != nil {
					return c.tool(fmt.Errorf("admit: %w", err))
				}
				t.admitted = true
				if fork {
					// the finalization-path takeover prunes the rival's body; the one-time keys the rival
					// reserved stay reserved for it (the model's bindings do not change)
					txs[t.rival].admitted = false
					c.out.Probes["rival_pruned_by_takeover"]++
				}
			}
			ok := !conflicts(ti)
			before := f.Dump()
			ts += uint64(time.Millisecond)
			var ferr error
			if g := c.guard("finalize-panic", func() {
				_, ferr = f.Finalize(op.M%7, ts, []*common.VersionedTransaction{t.ver}, nil)
			}); g != nil {
				return g
			}
			c.logf("c%d finalize tx%d err=%v (model ok=%v)", op.N, ti, ferr != nil, ok)
			if ferr == nil && !ok {
				return c.viol("finalized-over-foreign-key", "op %d: transaction %d finalized although an output key belongs to another transaction", i, ti)
			}
			if ferr != nil && ok {
				return c.viol("finalize-refused", "op %d: %v", i, ferr)
			}
			if ok {
				bind(ti)
				t.finalized = true
				finOK++
			} else {
				finRefused++
				a, r, ch := storerig.DiffDumps(before, f.Dump())
				if len(a)+len(r)+len(ch) > 0 {
					return c.viol("failed-finalization-changed-state", "op %d: +%v -%v ~%v", i, storerig.CountByPrefix(a), storerig.CountByPrefix(r), storerig.CountByPrefix(ch))
				}
			}
		case "restart":
			if err := f.Reopen(false); err != nil {
				return c.tool(err)
			}
			c.out.Faults["restart"]++
			c.logf("restart")
		}
		if r := verify(i); r != nil {
			return r
		}
	}
	c.out.Probes["reserved"] += granted
	c.out.Probes["reserve_refused"] += refused
	c.out.Probes["finalized"] += finOK
	c.out.Probes["finalize_refused"] += finRefused
	c.out.Probes["repeated_key_rejected"] += dupRejected
	c.out.Probes["hardcoded_exception_hashes_reached"] += 0
	return c.done(granted > 0 && (refused+finRefused) > 0, map[string]any{"keys": nK, "txs": nT, "reserved": granted, "refused": refused, "finalized": finOK, "finalize_refused": finRefused})
}

func init() {
	harness.Register(&harness.Property{
		ID:    "C04",
		Level: "exploration",
		Rule: "seeded interleavings (4 clients, call granularity) of key-set reservations (ordinary and fork), full Validate calls and finalizations over 3-7 one-time keys shared by 4-11 transactions (20% repeat a key among their own outputs; half of the odd ones are rivals spending their predecessor's deposit, so that admissions followed by a finalization-path takeover prune a stored transaction whose key reservations must stay), with restarts; all bindings re-read after every operation; failed finalizations compared by full dump; " +
			"non-trivial = at least one reservation granted and one reservation or finalization refused; distinct = canonical-log digests. The three hard-coded historical hashes are unreachable (they would need a Blake3 preimage) and are reported as probe 0.",
		Components: r3Components,
		Assume:     r3Assume,
		Gen:        c04Gen,
		Exec:       c04Exec,
		QuickRuns:  300, ThoroughRuns: 6000,
		QuickWall: 40 * time.Second, ThoroughWall: 8 * time.Minute,
	})
}

func allOutputKeys(ver *common.VersionedTransaction) []*crypto.Key {
	var ks []*crypto.Key
	for _, o := range ver.Outputs {
		ks = append(ks, o.Keys...)
	}
	return ks
}
