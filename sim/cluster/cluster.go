// Package cluster is rig R1: several real kernel.Nodes inside one process,
// single-threaded, every step, delivery, delay, fault and crash decided by a
// seeded PRNG over a discrete-event queue.
package cluster

import (
	"encoding/json"
	"errors"
	"fmt"
	"os"
	"path/filepath"
	"runtime/debug"
	"sort"
	"strings"
	"time"

	"verifsim/core"

	"github.com/MixinNetwork/mixin/common"
	"github.com/MixinNetwork/mixin/config"
	"github.com/MixinNetwork/mixin/crypto"
	"github.com/MixinNetwork/mixin/kernel"
	"github.com/MixinNetwork/mixin/logger"
	"github.com/MixinNetwork/mixin/p2p"
	"github.com/MixinNetwork/mixin/storage"
	"github.com/dgraph-io/ristretto/v2"
)

const GenesisEpoch = int64(1551312000)

type NetConfig struct {
	DropRate    float64
	DupRate     float64
	ReorderRate float64
	MinLatency  time.Duration
	MaxLatency  time.Duration
	// HoldOnPartition models a stalled (not reset) connection: frames sent
	// across a partition are delivered when it heals instead of being lost.
	HoldOnPartition bool
}

type Config struct {
	Seed         uint64
	Nodes        int
	ExtraKeys    int           // identities beyond genesis (pledging candidates)
	StartOffset  time.Duration // simulated start relative to the genesis epoch
	OpPeriod     time.Duration // kernel operation period (mint/election ticks)
	Net          NetConfig
	LogStore     bool
	NoLoops      bool    // do not schedule the periodic node loops (rigs that only call node APIs)
	StartCutRate float64 // chance that a restart scheduled after a stop is itself stopped during start-up (0 = never)
	KeepTrace    bool
	Root         string // directory for Badger data (tmpfs)
	EpochShift   int64  // seconds subtracted from the genesis epoch (long horizons)
}

// Monitor is an invariant observer. All callbacks run synchronously inside
// the simulator goroutine.
type Monitor interface {
	BeforeStore(n *SNode, call *StoreCall)
	AfterStore(n *SNode, call *StoreCall)
	OnSend(from, to *SNode, data []byte) [][]byte // may replace/duplicate/drop; nil = unchanged
	OnDeliver(from, to *SNode, data []byte)
	AfterStep(n *SNode, kind string)
	OnPanic(n *SNode, kind string, val any, stack string) bool // true = handled (expected)
	OnRestart(n *SNode)
}

// BaseMonitor provides no-op defaults.
type BaseMonitor struct{}

func (BaseMonitor) BeforeStore(*SNode, *StoreCall)           {}
func (BaseMonitor) AfterStore(*SNode, *StoreCall)            {}
func (BaseMonitor) OnSend(_, _ *SNode, _ []byte) [][]byte    { return nil }
func (BaseMonitor) OnDeliver(_, _ *SNode, _ []byte)          {}
func (BaseMonitor) AfterStep(*SNode, string)                 {}
func (BaseMonitor) OnPanic(*SNode, string, any, string) bool { return false }
func (BaseMonitor) OnRestart(*SNode)                         {}

type Violation struct {
	Property  string `json:"property"`
	Signature string `json:"signature"`
	Detail    string `json:"detail"`
	At        int64  `json:"at_us"`
	Node      int    `json:"node"`
}

type SNode struct {
	Idx    int
	Id     crypto.Hash
	Signer common.Address
	Payee  common.Address
	Dir    string
	Custom *config.Custom

	Store *storage.BadgerStore
	W     *WStore
	Cache *ristretto.Cache[[]byte, any]
	Node  *kernel.Node

	Alive        bool
	Gen          int // incarnation; events of older incarnations are dropped
	Skew         time.Duration
	StallUntil   time.Duration
	WriteOrdinal int
	drbg         *core.Rng

	// PollOnly, when non-nil, restricts which chains of this node are stepped
	// (models a node whose other chain loops are slow)
	PollOnly map[crypto.Hash]bool

	crashOrdinal      int
	crashBefore       bool
	CommitOrdinal     int // Badger commits attempted by this node (instrumented storage build)
	crashCommit       int
	StartCrashAt      int // >0: the next start of this node stops right before its k-th Badger commit (a stop during start-up)
	failWriteSnapshot int
	failCalls         map[string]int // Store call name -> how many upcoming calls return an injected I/O error
	wakeQueued        bool
	Restarts          int
	Panics            int
}

type Cluster struct {
	Cfg   Config
	Rng   *core.Rng // scheduling stream
	Q     core.Queue
	Trace *core.Trace

	Gns       *common.Genesis
	GnsData   []byte
	NetworkId crypto.Hash
	Epoch     time.Time
	Start     time.Time

	Signers    []common.Address
	Payees     []common.Address
	Custodians []common.Address
	Domain     common.Address // genesis custodian account

	Nodes    []*SNode
	users    []*common.Address
	external *SNode
	cur      *SNode
	Monitors []Monitor

	blocked   map[[2]int]bool
	held      map[[2]int][]func()
	linkClock map[[2]int]time.Duration
	Stats     map[string]int
	Violation *Violation
	Halt      bool

	MsgDelivered int
	Steps        int
}

var active *Cluster

func (c *Cluster) count(k string) { c.Stats[k]++ }
func (c *Cluster) Count(k string) { c.Stats[k]++ }

// Account derives fixed key material.
func Account(seed uint64, idx int, role string) common.Address {
	return deterministicAccount(seed, idx, role)
}

func deterministicAccount(seed uint64, idx int, role string) common.Address {
	s := make([]byte, 64)
	copy(s, []byte(fmt.Sprintf("SIM#%s#%d#%d", role, seed, idx)))
	h := crypto.Blake3Hash(s)
	copy(s[32:], h[:])
	a := common.NewAddressFromSeed(s)
	a.PrivateViewKey = a.PublicSpendKey.DeterministicHashDerive()
	a.PublicViewKey = a.PrivateViewKey.Public()
	return a
}

func init() {
	logger.SetLevel(0)
	if l := os.Getenv("VERIF_KLOG"); l != "" {
		var n int
		fmt.Sscan(l, &n)
		logger.SetLevel(n)
	}
}

// BuildGenesis renders and parses a genesis document for the given keys.
func BuildGenesis(signers, payees, custodians []common.Address, domain common.Address, epoch int64) (*common.Genesis, []byte, error) {
	inputs := make([]map[string]string, 0)
	for i := range signers {
		inputs = append(inputs, map[string]string{
			"signer":    signers[i].String(),
			"payee":     payees[i].String(),
			"custodian": custodians[i].String(),
			"balance":   "13439",
		})
	}
	genesis := map[string]any{
		"epoch":     epoch,
		"nodes":     inputs,
		"custodian": domain.String(),
	}
	data, err := json.MarshalIndent(genesis, "", "  ")
	if err != nil {
		return nil, nil, err
	}
	var gns common.Genesis
	if err := json.Unmarshal(data, &gns); err != nil {
		return nil, nil, err
	}
	return &gns, data, nil
}

// New builds the genesis, the key material and the (not yet started) nodes.
func New(cfg Config) (*Cluster, error) {
	if cfg.Nodes < config.KernelMinimumNodesCount {
		return nil, fmt.Errorf("need at least %d nodes", config.KernelMinimumNodesCount)
	}
	if cfg.OpPeriod == 0 {
		cfg.OpPeriod = 700 * time.Second
	}
	if cfg.Net.MaxLatency == 0 {
		cfg.Net.MinLatency, cfg.Net.MaxLatency = 2*time.Millisecond, 60*time.Millisecond
	}
	c := &Cluster{
		Cfg:       cfg,
		Rng:       core.NewRng(core.SplitMix64(cfg.Seed ^ 0x5c4ed)),
		Trace:     core.NewTrace(300),
		blocked:   make(map[[2]int]bool),
		linkClock: make(map[[2]int]time.Duration),
		Stats:     make(map[string]int),
	}
	c.Trace.Keep = cfg.KeepTrace
	// Key material is fixed (independent of the run seed) so that every run
	// shares one network id; only behaviour is seeded.
	const keySeed = 7
	total := cfg.Nodes + cfg.ExtraKeys
	for i := 0; i < total; i++ {
		c.Signers = append(c.Signers, deterministicAccount(keySeed, i, "SIGNER"))
		c.Payees = append(c.Payees, deterministicAccount(keySeed, i, "PAYEE"))
		c.Custodians = append(c.Custodians, deterministicAccount(keySeed, i, "CUSTODIAN"))
	}
	c.Domain = deterministicAccount(keySeed, 0, "DOMAIN")

	gns, data, err := BuildGenesis(c.Signers[:cfg.Nodes], c.Payees[:cfg.Nodes], c.Custodians[:cfg.Nodes], c.Domain, GenesisEpoch-cfg.EpochShift)
	if err != nil {
		return nil, err
	}
	c.GnsData = data
	c.Gns = gns
	c.NetworkId = gns.NetworkId()
	c.Epoch = time.Unix(gns.Epoch, 0)
	c.Start = c.Epoch.Add(cfg.StartOffset)

	root := cfg.Root
	if root == "" {
		root = "/dev/shm"
	}
	dir, err := os.MkdirTemp(root, "verifsim-")
	if err != nil {
		return nil, err
	}
	c.Cfg.Root = dir

	for i := 0; i < total; i++ {
		n := &SNode{
			Idx:    i,
			Signer: c.Signers[i],
			Payee:  c.Payees[i],
			Id:     c.Signers[i].Hash().ForNetwork(c.NetworkId),
			Dir:    fmt.Sprintf("%s/n%02d", dir, i),
			drbg:   core.NewRng(core.SplitMix64(cfg.Seed ^ uint64(0xd00d+i))),
		}
		custom := &config.Custom{}
		custom.Node.Signer = c.Signers[i].PrivateSpendKey
		custom.Node.KernelOprationPeriod = int(cfg.OpPeriod / time.Second)
		custom.Node.MemoryCacheSize = 16
		custom.Node.CacheTTL = 3600 * 2
		custom.P2P.Relayer = true
		n.Custom = custom
		c.Nodes = append(c.Nodes, n)
	}
	return c, nil
}

// Install makes this cluster the target of the process-global hooks.
func (c *Cluster) Install() {
	active = c
	kernel.SimSetStepMode(true)
	kernel.SimSetClock(simClock)
	p2p.SimNow = simClock
	crypto.SimRand = simRand
	storage.SimPoint = simPoint
}

// simPoint is the storage instrumentation seam (mutex acquisitions and Badger
// transaction boundaries, see cmd/instrument). The cluster rig uses the commit
// points as crash points: a crash armed for the k-th upcoming commit unwinds
// the node right before that commit, i.e. between two durable writes even when
// both belong to one Store call.
func simPoint(p string) {
	c := active
	if c == nil || c.cur == nil || !strings.HasPrefix(p, "commit:") {
		return
	}
	n := c.cur
	n.CommitOrdinal++
	if c.Cfg.LogStore {
		c.Trace.Logf(c.Q.Now, "commit n%d #%d %s", n.Idx, n.CommitOrdinal, p[7:])
	}
	if n.crashCommit != 0 && n.crashCommit == n.CommitOrdinal {
		n.crashCommit = 0
		c.count("crash.commit." + p[7:])
		panic(crashSignal{n.Idx})
	}
}

func simClock() time.Time {
	c := active
	t := c.Start.Add(c.Q.Now)
	if c.cur != nil {
		t = t.Add(c.cur.Skew)
	}
	return t
}

func simRand(buf []byte) {
	c := active
	if c.cur != nil {
		c.cur.drbg.Bytes(buf)
		return
	}
	c.Rng.Bytes(buf)
}

// JumpTime moves every node's clock forward by d without processing the
// intermediate timer events (a cluster-wide clock jump; also the idle-time
// skipping of long-horizon runs).
func (c *Cluster) JumpTime(d time.Duration) {
	c.Start = c.Start.Add(d)
	c.count("clock.jump")
}

// NowNano is the simulated time of the current (or neutral) clock.
func (c *Cluster) NowNano() uint64 { return uint64(simClock().UnixNano()) }

func (c *Cluster) Close() {
	for _, n := range c.Nodes {
		if n.Alive {
			c.stopNode(n)
		}
	}
	os.RemoveAll(c.Cfg.Root)
	if active == c {
		active = nil
	}
}

func (c *Cluster) AddMonitor(m Monitor) { c.Monitors = append(c.Monitors, m) }

func (c *Cluster) Violate(prop, sig, detail string, n *SNode) {
	if c.Violation != nil {
		return
	}
	idx := -1
	if n != nil {
		idx = n.Idx
	}
	c.Violation = &Violation{Property: prop, Signature: sig, Detail: detail, At: int64(c.Q.Now / time.Microsecond), Node: idx}
	c.Trace.Logf(c.Q.Now, "VIOLATION %s %s %s", prop, sig, detail)
	c.Halt = true
}

// StartNode opens the durable store and runs the real SetupNode.
// ErrStoppedDuringStart reports that an armed stop (StartCrashAt) fired while the node was starting.
var ErrStoppedDuringStart = fmt.Errorf("node stopped during start-up")

func (c *Cluster) StartNode(n *SNode) (err error) {
	if err := os.MkdirAll(n.Dir, 0755); err != nil {
		return err
	}
	prev := c.cur
	c.cur = n
	defer func() { c.cur = prev }()

	store, err := storage.NewBadgerStore(n.Custom, n.Dir)
	if err != nil {
		return fmt.Errorf("open store: %w", err)
	}
	cache, err := ristretto.NewCache(&ristretto.Config[[]byte, any]{
		NumCounters: 1e5,
		MaxCost:     int64(n.Custom.Node.MemoryCacheSize) * 1024 * 1024,
		BufferItems: 64,
	})
	if err != nil {
		return err
	}
	n.Store, n.Cache = store, cache
	if k := n.StartCrashAt; k > 0 {
		// a stop during start-up: genesis load, state repair and round completion all write
		n.StartCrashAt = 0
		n.crashCommit = n.CommitOrdinal + k
		defer func() {
			n.crashCommit = 0
			if r := recover(); r != nil {
				if _, ok := r.(crashSignal); !ok {
					panic(r)
				}
				c.Trace.Logf(c.Q.Now, "stopped during start n%d commit+%d", n.Idx, k)
				store.Close()
				cache.Close()
				n.Node, n.Store, n.W, n.Cache = nil, nil, nil, nil
				n.Alive = false
				c.count("crash.during_start")
				err = ErrStoppedDuringStart
			}
		}()
	}
	n.W = &WStore{BadgerStore: store, c: c, n: n}
	node, err := kernel.SetupNode(n.Custom, n.W, cache, c.Gns)
	if err != nil {
		store.Close()
		cache.Close()
		return fmt.Errorf("SetupNode: %w", err)
	}
	node.SimInitPeer()
	n.Node = node
	n.Alive = true
	n.Gen++
	for _, o := range c.Nodes {
		if o == n {
			continue
		}
		node.Peer.SimAddNeighbor(o.Id)
		if o.Alive {
			o.Node.Peer.SimRemoveNeighbor(n.Id)
			o.Node.Peer.SimAddNeighbor(n.Id)
		}
	}
	// the external pseudo peer is a direct neighbour of everybody: replies addressed to it (confirmations,
	// transaction requests) then take the direct path instead of the relay path, whose choice of relayer
	// follows Go map order and would make the schedule differ from execution to execution
	node.Peer.SimAddNeighbor(c.External().Id)
	cache.Wait()
	c.scheduleNodeLoops(n)
	return nil
}

func (c *Cluster) stopNode(n *SNode) {
	if !n.Alive {
		return
	}
	n.Alive = false
	n.Gen++
	n.Node.SimStop()
	n.Node.SimForget()
	n.Store.Close()
	n.Cache.Close()
	n.Node, n.Store, n.W, n.Cache = nil, nil, nil, nil
	n.crashOrdinal = 0
	n.crashCommit = 0
	n.failCalls = nil
}

// Crash stops a node losing all volatile state; the durable directory stays.
func (c *Cluster) Crash(n *SNode, loseCacheDB bool) {
	if !n.Alive {
		return
	}
	c.Trace.Logf(c.Q.Now, "crash n%d losecache=%v", n.Idx, loseCacheDB)
	c.stopNode(n)
	if loseCacheDB {
		os.RemoveAll(n.Dir + "/cache")
		c.count("crash.cachelost")
	}
	c.count("crash")
}

// BackupDisk copies the durable directory of a stopped node (the operator's backup).
func (c *Cluster) BackupDisk(n *SNode) error {
	if n.Alive {
		return fmt.Errorf("backup of a running node")
	}
	os.RemoveAll(n.Dir + ".backup")
	return copyTree(n.Dir, n.Dir+".backup")
}

// RestoreDisk replaces the durable directory of a stopped node by its backup:
// the node comes back with an older disk image (every later write is lost).
func (c *Cluster) RestoreDisk(n *SNode) error {
	if n.Alive {
		return fmt.Errorf("restore of a running node")
	}
	if _, err := os.Stat(n.Dir + ".backup"); err != nil {
		return err
	}
	os.RemoveAll(n.Dir)
	c.count("disk.restored_from_older_image")
	return copyTree(n.Dir+".backup", n.Dir)
}

func copyTree(from, to string) error {
	return filepath.Walk(from, func(path string, info os.FileInfo, err error) error {
		if err != nil {
			return err
		}
		rel, _ := filepath.Rel(from, path)
		dst := filepath.Join(to, rel)
		if info.IsDir() {
			return os.MkdirAll(dst, 0755)
		}
		b, err := os.ReadFile(path)
		if err != nil {
			return err
		}
		return os.WriteFile(dst, b, info.Mode())
	})
}

// Restart brings a crashed node back from its durable directory.
func (c *Cluster) Restart(n *SNode) error {
	if n.Alive {
		return nil
	}
	var err error
	func() {
		defer func() {
			if r := recover(); r != nil {
				err = fmt.Errorf("panic during restart: %v\n%s", r, debug.Stack())
			}
		}()
		err = c.StartNode(n)
	}()
	c.Trace.Logf(c.Q.Now, "restart n%d err=%v", n.Idx, err != nil)
	if err == ErrStoppedDuringStart {
		c.scheduleRestart(n)
		return nil
	}
	if err != nil {
		return err
	}
	n.Restarts++
	c.count("restart")
	for _, m := range c.Monitors {
		m.OnRestart(n)
	}
	return nil
}

// CrashAtStoreCall arms a crash of node n at its k-th next mutating storage
// call (before or after the call executes).
func (c *Cluster) CrashAtStoreCall(n *SNode, k int, before bool) {
	n.crashOrdinal = n.WriteOrdinal + k
	n.crashBefore = before
}

// CrashAtCommit arms a crash of node n right before its k-th next Badger
// commit (k >= 1), whichever Store call issues it.
func (c *Cluster) CrashAtCommit(n *SNode, k int) {
	n.crashCommit = n.CommitOrdinal + k
}

// FailStoreCall makes the next `count` calls of the named round-transition
// write (StartNewRound, UpdateEmptyHeadRound) on node n return an I/O error
// without touching the store (a failing disk).
func (c *Cluster) FailStoreCall(n *SNode, name string, count int) {
	if n.failCalls == nil {
		n.failCalls = map[string]int{}
	}
	n.failCalls[name] += count
}

// DisarmCrashes cancels armed in-call crashes (used when faults stop).
func (c *Cluster) DisarmCrashes() {
	for _, n := range c.Nodes {
		n.crashOrdinal = 0
		n.crashCommit = 0
		n.failCalls = nil
	}
}

// Step runs fn as one atomic step of node n under its clock, recovering
// crash signals and kernel panics.
func (c *Cluster) Step(n *SNode, kind string, fn func()) (ok bool) {
	if !n.Alive || c.Halt {
		return false
	}
	if n.StallUntil > c.Q.Now && kind != "client" {
		return false
	}
	prev := c.cur
	c.cur = n
	c.Steps++
	ok = true
	func() {
		defer func() {
			if r := recover(); r != nil {
				ok = false
				if _, isCrash := r.(crashSignal); isCrash {
					c.cur = prev
					c.Crash(n, false)
					c.scheduleRestart(n)
					return
				}
				stack := string(debug.Stack())
				c.cur = prev
				c.handlePanic(n, kind, r, stack)
			}
		}()
		fn()
	}()
	if n.Alive {
		n.Cache.Wait()
		c.flush(n)
		for _, m := range c.Monitors {
			m.AfterStep(n, kind)
		}
	}
	c.cur = prev
	return ok
}

func (c *Cluster) handlePanic(n *SNode, kind string, r any, stack string) {
	n.Panics++
	c.count("panic")
	msg := fmt.Sprint(r)
	c.Trace.Logf(c.Q.Now, "panic n%d %s %s", n.Idx, kind, firstLine(msg))
	handled := false
	if err, ok := r.(error); ok {
		var ie *injectedError
		if errors.As(err, &ie) {
			// the node stops itself on a storage error it cannot handle: fail-stop, the operator restarts it
			handled = true
			c.count("storeerr.fail_stop")
		}
	}
	for _, m := range c.Monitors {
		if m.OnPanic(n, kind, r, stack) {
			handled = true
		}
	}
	if !handled && c.Violation == nil {
		c.Violate("PANIC", "unhandled-panic:"+panicSite(stack), msg+"\n"+stack, n)
	}
	c.Crash(n, false)
	c.scheduleRestart(n)
}

func firstLine(s string) string {
	if i := strings.IndexByte(s, '\n'); i >= 0 {
		s = s[:i]
	}
	if len(s) > 160 {
		s = s[:160]
	}
	return s
}

// panicSite extracts the first mixin frame of a stack as a stable signature.
func panicSite(stack string) string {
	lines := strings.Split(stack, "\n")
	seenPanic := false
	for _, l := range lines {
		if strings.HasPrefix(l, "panic(") {
			seenPanic = true
			continue
		}
		if !seenPanic {
			continue
		}
		if strings.HasPrefix(l, "github.com/MixinNetwork/mixin/") {
			f := strings.TrimPrefix(l, "github.com/MixinNetwork/mixin/")
			if strings.HasPrefix(f, "storage.sim") {
				continue // instrumentation helper of the overlay build, not a site of the code under test
			}
			if i := strings.IndexByte(f, '('); i > 0 {
				// keep receiver types, drop arguments
				if j := strings.LastIndex(f, "("); j > 0 {
					f = f[:j]
				}
			}
			return f
		}
	}
	return "unknown"
}

func (c *Cluster) scheduleRestart(n *SNode) {
	d := c.Rng.Dur(200*time.Millisecond, 5*time.Second)
	c.Q.After(d, "restart", func() {
		if n.Alive || c.Halt {
			return
		}
		if c.Cfg.StartCutRate > 0 && c.Rng.Chance(c.Cfg.StartCutRate) {
			n.StartCrashAt = 1 // the restart after a stop is itself cut once (few start-ups commit more than once)
			if c.Rng.Chance(0.3) {
				n.StartCrashAt = 2 + c.Rng.IntN(3)
			}
		}
		if err := c.Restart(n); err != nil {
			c.Violate("C22", "restart-failed", err.Error(), n)
		}
	})
}

// ---------------------------------------------------------------- transport

func (c *Cluster) Partition(a, b int, on bool) {
	c.PartitionOneWay(a, b, on)
	c.PartitionOneWay(b, a, on)
}

func (c *Cluster) PartitionOneWay(from, to int, on bool) {
	link := [2]int{from, to}
	c.blocked[link] = on
	if !on {
		for _, f := range c.held[link] {
			f()
		}
		delete(c.held, link)
	}
}

func (c *Cluster) HealAll() {
	for link, on := range c.blocked {
		if on {
			c.PartitionOneWay(link[0], link[1], false)
		}
	}
	c.blocked = make(map[[2]int]bool)
}

// flush drains the outgoing rings of n and schedules deliveries.
func (c *Cluster) flush(n *SNode) {
	for _, o := range c.Nodes {
		if o == n {
			continue
		}
		for round := 0; round < 64; round++ {
			msgs := n.Node.Peer.SimDrain(o.Id, 16)
			if len(msgs) == 0 {
				break
			}
			for _, data := range msgs {
				c.send(n, o, data)
			}
		}
	}
	// frames for the external pseudo peer go nowhere
	for round := 0; round < 64; round++ {
		msgs := n.Node.Peer.SimDrain(c.External().Id, 64)
		if len(msgs) == 0 {
			break
		}
		c.Stats["sent_to_external_sink"] += len(msgs)
	}
}

func (c *Cluster) send(from, to *SNode, data []byte) {
	out := [][]byte{data}
	for _, m := range c.Monitors {
		if r := m.OnSend(from, to, data); r != nil {
			out = r
		}
	}
	for _, d := range out {
		c.transmit(from, to, d)
	}
}

// External is a pseudo peer that is not a member of the network; frames
// injected from it model an arbitrary (Byzantine or syncing) relay.
func (c *Cluster) External() *SNode {
	if c.external == nil {
		c.external = &SNode{Idx: 99, Id: crypto.Blake3Hash([]byte("verifsim external peer"))}
	}
	return c.external
}

// Inject delivers a frame as if sent by `from` (Byzantine injection).
func (c *Cluster) Inject(from, to *SNode, data []byte, delay time.Duration) {
	c.count("inject")
	c.deliverAt(from, to, data, c.Q.Now+delay)
}

func (c *Cluster) transmit(from, to *SNode, data []byte) {
	typ := p2p.SimMessageType(data)
	c.count("sent")
	if c.blocked[[2]int{from.Idx, to.Idx}] {
		if c.Cfg.Net.HoldOnPartition {
			c.count("net.partition_hold")
			link := [2]int{from.Idx, to.Idx}
			if c.held == nil {
				c.held = make(map[[2]int][]func())
			}
			c.held[link] = append(c.held[link], func() { c.transmit(from, to, data) })
			return
		}
		c.count("net.partition_drop")
		return
	}
	net := c.Cfg.Net
	if net.DropRate > 0 && c.Rng.Chance(net.DropRate) {
		c.count("net.drop")
		c.Trace.Logf(c.Q.Now, "drop n%d->n%d t%d", from.Idx, to.Idx, typ)
		return
	}
	lat := c.Rng.Dur(net.MinLatency, net.MaxLatency)
	at := c.Q.Now + lat
	link := [2]int{from.Idx, to.Idx}
	if net.ReorderRate > 0 && c.Rng.Chance(net.ReorderRate) {
		at += c.Rng.Dur(0, 4*net.MaxLatency)
		c.count("net.reorder")
	} else {
		if at <= c.linkClock[link] {
			at = c.linkClock[link] + time.Microsecond
		}
		c.linkClock[link] = at
	}
	c.deliverAt(from, to, data, at)
	if net.DupRate > 0 && c.Rng.Chance(net.DupRate) {
		c.count("net.dup")
		c.deliverAt(from, to, data, at+c.Rng.Dur(net.MinLatency, 3*net.MaxLatency))
	}
}

func (c *Cluster) deliverAt(from, to *SNode, data []byte, at time.Duration) {
	gen := to.Gen
	c.Q.At(at, "deliver", func() {
		if !to.Alive || to.Gen != gen {
			c.count("net.dead_drop")
			return
		}
		if to.StallUntil > c.Q.Now {
			// a stalled node keeps its inbox; redeliver when it wakes
			c.deliverAt(from, to, data, to.StallUntil+time.Millisecond)
			return
		}
		c.MsgDelivered++
		c.Trace.Logf(c.Q.Now, "deliver n%d->n%d %s", from.Idx, to.Idx, DescribeMessage(data))
		for _, m := range c.Monitors {
			m.OnDeliver(from, to, data)
		}
		c.Step(to, "deliver", func() {
			err := to.Node.Peer.SimDeliver(from.Id, data)
			if err != nil {
				c.count("deliver.error")
			}
		})
		c.wake(to)
	})
}

// ---------------------------------------------------------------- node loops

func (c *Cluster) scheduleNodeLoops(n *SNode) {
	if c.Cfg.NoLoops {
		return
	}
	gen := n.Gen
	alive := func() bool { return n.Alive && n.Gen == gen && !c.Halt }

	var poll func()
	poll = func() {
		if !alive() {
			return
		}
		busy := c.pollChains(n)
		next := 100 * time.Millisecond
		if !busy {
			next = 500 * time.Millisecond
		}
		c.Q.After(next+c.Rng.Dur(0, 3*time.Millisecond), "poll", poll)
	}
	c.Q.After(c.Rng.Dur(0, 100*time.Millisecond), "poll", poll)

	var queue func()
	queue = func() {
		if !alive() {
			return
		}
		c.Step(n, "queue", func() {
			for n.Node.SimStepQueue() == common.SnapshotTransactionsMaximum {
			}
		})
		if alive() {
			c.pollChains(n)
		}
		c.Q.After(1300*time.Millisecond+c.Rng.Dur(0, 20*time.Millisecond), "queue", queue)
	}
	c.Q.After(c.Rng.Dur(300*time.Millisecond, 1300*time.Millisecond), "queue", queue)

	var graph func()
	graph = func() {
		if !alive() {
			return
		}
		c.Step(n, "graph", func() { n.Node.SimSendGraph() })
		c.Q.After(1500*time.Millisecond+c.Rng.Dur(0, 20*time.Millisecond), "graph", graph)
	}
	c.Q.After(c.Rng.Dur(0, 1500*time.Millisecond), "graph", graph)

	var sync func()
	sync = func() {
		if !alive() {
			return
		}
		c.Step(n, "sync", func() {
			for _, o := range c.Nodes {
				if o != n {
					n.Node.Peer.SimSyncOnce(o.Id, 2)
				}
			}
		})
		c.Q.After(1000*time.Millisecond+c.Rng.Dur(0, 50*time.Millisecond), "sync", sync)
	}
	c.Q.After(c.Rng.Dur(500*time.Millisecond, 1500*time.Millisecond), "sync", sync)

	var op func()
	op = func() {
		if !alive() {
			return
		}
		c.Step(n, "mint", func() { _ = n.Node.SimMintTick() })
		if alive() {
			c.Step(n, "election", func() { _ = n.Node.SimElectionTick() })
		}
		c.Q.After(c.Cfg.OpPeriod+c.Rng.Dur(0, 50*time.Millisecond), "op", op)
	}
	c.Q.After(c.Rng.Dur(c.Cfg.OpPeriod/2, c.Cfg.OpPeriod), "op", op)

	var agg func()
	agg = func() {
		if !alive() {
			return
		}
		for _, id := range n.Node.SimChainIDs() {
			if !alive() {
				break
			}
			if !n.Node.SimChainActive(id) {
				continue
			}
			c.Step(n, "work", func() { n.Node.SimStepWork(id) })
			if alive() {
				c.Step(n, "space", func() { n.Node.SimStepSpace(id) })
			}
		}
		c.Q.After(c.Cfg.OpPeriod/2+c.Rng.Dur(0, 50*time.Millisecond), "agg", agg)
	}
	c.Q.After(c.Rng.Dur(c.Cfg.OpPeriod/4, c.Cfg.OpPeriod/2), "agg", agg)
}

// AggregateAll steps the real work and round-space aggregators of every live
// node (one loop iteration per call of the real functions) up to iter times per
// chain, so that they catch up with a history that was injected faster than
// their timers tick.
func (c *Cluster) AggregateAll(iter int) {
	for _, n := range c.Nodes {
		c.AggregateNode(n, iter)
	}
}

// AggregateNode runs `iter` iterations of the work and space loops of every chain of one node.
func (c *Cluster) AggregateNode(n *SNode, iter int) {
	{
		if !n.Alive {
			return
		}
		for _, id := range n.Node.SimChainIDs() {
			if !n.Alive {
				break
			}
			if !n.Node.SimChainActive(id) {
				continue
			}
			for k := 0; k < iter && n.Alive; k++ {
				if os.Getenv("VERIF_DEBUG") != "" {
					off, _ := n.Store.ReadWorkOffset(id)
					for _, r := range []uint64{off, off + 1} {
						ws, _ := n.Store.ReadSnapshotWorksForNodeRound(id, r)
						for _, w := range ws {
							fmt.Fprintf(os.Stderr, "n%d chain %s offset %d round %d work %s signers %d has-own %v\n", n.Idx, id.String()[:6], off, r, w.Hash.String()[:6], len(w.Signers), func() bool {
								for _, sg := range w.Signers {
									if sg == id {
										return true
									}
								}
								return false
							}())
						}
					}
				}
				c.Step(n, "work", func() { n.Node.SimStepWork(id) })
				if n.Alive {
					c.Step(n, "space", func() { n.Node.SimStepSpace(id) })
				}
			}
		}
	}
}

// pollChains steps the final-action consumer and the poll loop of every
// chain of n that has work, in PRNG order. Returns whether any was busy.
func (c *Cluster) pollChains(n *SNode) bool {
	if !n.Alive || n.StallUntil > c.Q.Now {
		return false
	}
	ids := n.Node.SimChainIDs()
	c.Rng.Shuffle(len(ids), func(i, j int) { ids[i], ids[j] = ids[j], ids[i] })
	busy := false
	for _, id := range ids {
		if !n.Alive || c.Halt {
			return busy
		}
		ch := n.Node.SimChain(id)
		if ch == nil || !n.Node.SimChainActive(id) {
			continue
		}
		if n.PollOnly != nil && !n.PollOnly[id] {
			continue
		}
		p := ch.SimPools()
		if p.CachePool == 0 && p.FinalRing == 0 && p.FinalUnmet == 0 && p.Aggregators == 0 {
			continue
		}
		busy = true
		c.Step(n, "final", func() { n.Node.SimStepChainFinal(id) })
		if !n.Alive {
			return busy
		}
		c.Step(n, "poll", func() { n.Node.SimStepChainPoll(id) })
	}
	return busy
}

// PollChainsNested steps the listed chains of n from inside another step of
// the same node (the outer step is parked at a storage-call boundary): this
// is the intra-node interleaving of two chain loops at Store-call
// granularity. It reports how many chains were stepped. If the node crashes
// meanwhile the caller must unwind with CrashNow.
func (c *Cluster) PollChainsNested(n *SNode, chains []crypto.Hash) int {
	stepped := 0
	for _, id := range chains {
		if !n.Alive || c.Halt {
			break
		}
		ch := n.Node.SimChain(id)
		if ch == nil {
			continue
		}
		p := ch.SimPools()
		if p.CachePool == 0 && p.FinalRing == 0 && p.FinalUnmet == 0 {
			continue
		}
		stepped++
		n.Node.SimStepChainFinal(id)
		n.Node.SimStepChainPoll(id)
	}
	return stepped
}

// CrashNow unwinds the current step of n as a crash at this point.
func (c *Cluster) CrashNow(n *SNode, label string) {
	c.count("crash." + label)
	panic(crashSignal{n.Idx})
}

// wake schedules a prompt poll of n (the real loops are woken by channel
// signals after message handling).
func (c *Cluster) wake(n *SNode) {
	if !n.Alive || n.wakeQueued {
		return
	}
	n.wakeQueued = true
	gen := n.Gen
	c.Q.After(c.Rng.Dur(0, 2*time.Millisecond), "wake", func() {
		n.wakeQueued = false
		if n.Alive && n.Gen == gen && !c.Halt {
			c.pollChains(n)
		}
	})
}

func (c *Cluster) Wake(n *SNode) { c.wake(n) }

// Run processes events until the simulated time `until` or a halt.
func (c *Cluster) Run(until time.Duration) {
	for !c.Halt {
		e := c.Q.Peek()
		if e == nil || e.At > until {
			break
		}
		c.Q.Pop()
		e.Run()
	}
	if c.Q.Now < until && !c.Halt {
		c.Q.Now = until
	}
}

// Boot starts the first cfg.Nodes (genesis) nodes.
func (c *Cluster) Boot() error {
	c.Install()
	for i := 0; i < c.Cfg.Nodes; i++ {
		err := c.StartNode(c.Nodes[i])
		if err == ErrStoppedDuringStart {
			// the very first start was cut: the operator starts the node again
			err = c.Restart(c.Nodes[i])
			if err != nil {
				c.Violate("C22", "restart-failed", err.Error(), c.Nodes[i])
				err = nil
			}
		}
		if err != nil {
			return err
		}
	}
	return nil
}

func (c *Cluster) AliveNodes() []*SNode {
	var out []*SNode
	for _, n := range c.Nodes {
		if n.Alive {
			out = append(out, n)
		}
	}
	return out
}

// Submit hands a transaction to a node through the real admission path.
func (c *Cluster) Submit(n *SNode, tx *common.VersionedTransaction) (id string, err error) {
	tx = decoded(tx) // the RPC layer hands the node a decoded transaction
	ok := c.Step(n, "client", func() {
		id, err = n.Node.QueueTransaction(tx)
	})
	if !ok && err == nil {
		err = fmt.Errorf("node unavailable")
	}
	c.wake(n)
	return
}

func SortedHashes(hs []crypto.Hash) []string {
	out := make([]string, len(hs))
	for i, h := range hs {
		out[i] = h.String()[:8]
	}
	sort.Strings(out)
	return out
}

// DescribeMessage renders canonical semantic fields of a frame (never raw
// bytes: Go map order leaks into some encodings).
func DescribeMessage(data []byte) string {
	msg, err := p2p.SimParse(data)
	if err != nil {
		return fmt.Sprintf("t%d unparsable", p2p.SimMessageType(data))
	}
	switch msg.Type {
	case p2p.PeerMessageTypeGraph:
		pts := make([]string, 0, len(msg.Graph))
		for _, p := range msg.Graph {
			pts = append(pts, fmt.Sprintf("%s:%d", p.NodeId.String()[:6], p.Number))
		}
		sort.Strings(pts)
		return "graph " + strings.Join(pts, ",")
	case p2p.PeerMessageTypeTransaction, p2p.PeerMessageTypeTransactionBundle, p2p.PeerMessageTypeFinalizedTransactionBundle:
		hs := make([]crypto.Hash, 0, len(msg.Transactions))
		for _, t := range msg.Transactions {
			hs = append(hs, t.PayloadHash())
		}
		return fmt.Sprintf("txs%d %s", msg.Type, strings.Join(SortedHashes(hs), ","))
	case p2p.PeerMessageTypeBatchSnapshotAnnouncement, p2p.PeerMessageTypeBatchFullChallenge, p2p.PeerMessageTypeBatchSnapshotFinalization:
		s := msg.Snapshot
		return fmt.Sprintf("snap%d %s r%d ts%d %s", msg.Type, s.NodeId.String()[:6], s.RoundNumber, s.Timestamp, strings.Join(SortedHashes(s.Transactions), ","))
	case p2p.PeerMessageTypeBatchSnapshotCommitment, p2p.PeerMessageTypeBatchTransactionChallenge, p2p.PeerMessageTypeBatchSnapshotResponse, p2p.PeerMessageTypeSnapshotConfirm:
		return fmt.Sprintf("cosi%d %s", msg.Type, msg.SnapshotHash.String()[:8])
	case p2p.PeerMessageTypeTransactionRequest:
		return fmt.Sprintf("txreq %s", msg.TransactionHash.String()[:8])
	case p2p.PeerMessageTypePreCommitments:
		return fmt.Sprintf("precommit %d", len(msg.Commitments))
	}
	return fmt.Sprintf("t%d", msg.Type)
}

// decoded returns the transaction as decoded from its own encoding (every
// key and signature an object of its own); values that cannot be encoded or
// decoded are passed on unchanged.
func decoded(ver *common.VersionedTransaction) (out *common.VersionedTransaction) {
	out = ver
	defer func() {
		if recover() != nil {
			out = ver
		}
	}()
	dec, err := common.UnmarshalVersionedTransaction(ver.Marshal())
	if err != nil || dec.PayloadHash() != ver.PayloadHash() {
		return ver
	}
	return dec
}
