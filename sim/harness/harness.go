// Package harness is the property-independent driver: plans, execution,
// delta-debugging minimisation, replay files, known findings, worker fan-out
// and evidence files.
package harness

import (
	"bufio"
	"encoding/json"
	"fmt"
	"os"
	"os/exec"
	"path/filepath"
	"runtime/debug"
	"sort"
	"strconv"
	"strings"
	"sync"
	"sync/atomic"
	"time"

	"verifsim/core"
)

// Op is one planned workload operation or fault.
type Op struct {
	At   int64  `json:"at_us,omitempty"`
	Kind string `json:"kind"`
	N    int    `json:"n,omitempty"`
	M    int    `json:"m,omitempty"`
	A    int64  `json:"a,omitempty"`
	B    int64  `json:"b,omitempty"`
	C    int64  `json:"c,omitempty"`
	D    int64  `json:"d,omitempty"`
	S    string `json:"s,omitempty"`
}

// Plan is everything that determines one execution.
type Plan struct {
	Prop   string           `json:"property"`
	Seed   uint64           `json:"seed"` // schedule seed (fine-grained choices)
	Params map[string]int64 `json:"params,omitempty"`
	Ops    []Op             `json:"ops"`
}

func (p *Plan) P(k string, def int64) int64 {
	if v, ok := p.Params[k]; ok {
		return v
	}
	return def
}

func (p *Plan) Clone() *Plan {
	q := &Plan{Prop: p.Prop, Seed: p.Seed, Params: map[string]int64{}}
	for k, v := range p.Params {
		q.Params[k] = v
	}
	q.Ops = append([]Op{}, p.Ops...)
	return q
}

type Violation struct {
	Property  string `json:"property"`
	Signature string `json:"signature"`
	Detail    string `json:"detail"`
}

// Outcome is what one execution reports.
type Outcome struct {
	Violation *Violation `json:"violation,omitempty"`
	Known     []string   `json:"known,omitempty"`
	// Soft are violations that did not stop the run (the run kept checking);
	// the worker promotes the first one that is not a listed known finding.
	Soft       []*Violation   `json:"soft,omitempty"`
	Evals      int            `json:"evals"`
	NonTrivial bool           `json:"nontrivial"`
	Faults     map[string]int `json:"faults,omitempty"`
	Probes     map[string]int `json:"probes,omitempty"`
	SimSeconds float64        `json:"sim_s"`
	Digest     string         `json:"digest"`
	Sample     any            `json:"sample,omitempty"`
	LogTail    []string       `json:"log_tail,omitempty"`
	ToolError  string         `json:"tool_error,omitempty"`
}

func NewOutcome() *Outcome {
	return &Outcome{Faults: map[string]int{}, Probes: map[string]int{}}
}

// Property is one registered check.
type Property struct {
	ID         string
	Level      string // exploration | fault_enumeration
	Rule       string
	Components map[string]string // real vs stub
	Assume     []string
	// Gen draws a plan from the run PRNG. tier: "quick" or "thorough".
	Gen func(rng *core.Rng, tier string) *Plan
	// Exec runs the plan deterministically.
	Exec func(p *Plan) *Outcome
	// Budget: quick/thorough wall budgets and maximum runs per worker.
	QuickRuns, ThoroughRuns int
	QuickWall, ThoroughWall time.Duration
	// Enumerate, if set, yields the plans of a finite space instead of Gen.
	Enumerate func(tier string, seed uint64) []*Plan
	// Directed, if set, yields a few plans that every batch executes first (run indexes 0..n-1), before
	// the seeded ones: scenarios too rare to rely on the draw of a short batch.
	Directed func(tier string, seed uint64) []*Plan
	// MaxWorkers / WorkerProcs bound the fan-out for expensive rigs whose
	// generators parallelise internally (0 = default 16 x GOMAXPROCS 1).
	MaxWorkers, WorkerProcs int
}

var registry = map[string]*Property{}

func Register(p *Property) { registry[p.ID] = p }

func Lookup(id string) *Property { return registry[id] }

func IDs() []string {
	var ids []string
	for id := range registry {
		ids = append(ids, id)
	}
	sort.Strings(ids)
	return ids
}

// ------------------------------------------------------------ known findings

type Finding struct {
	Property  string `json:"property"`
	Signature string `json:"signature"`
	Status    string `json:"status"` // known | fixed
	Commit    string `json:"commit,omitempty"`
	What      string `json:"what"`
}

type Findings struct {
	Findings []Finding `json:"findings"`
}

func LoadFindings(path string) *Findings {
	f := &Findings{}
	b, err := os.ReadFile(path)
	if err != nil {
		return f
	}
	if err := json.Unmarshal(b, f); err != nil {
		fmt.Fprintf(os.Stderr, "known_findings.json unreadable: %v\n", err)
		os.Exit(2)
	}
	return f
}

// Known returns the finding that suppresses (prop, signature), if any.
func (f *Findings) Known(prop, sig string) *Finding {
	for i := range f.Findings {
		k := &f.Findings[i]
		if k.Status == "known" && k.Property == prop && k.Signature == sig {
			return k
		}
	}
	return nil
}

// ------------------------------------------------------------ worker side

type RunRecord struct {
	Run     int      `json:"run"`
	RunSeed uint64   `json:"run_seed"`
	Plan    *Plan    `json:"plan,omitempty"`
	Out     *Outcome `json:"out"`
	WallMs  int64    `json:"wall_ms"`
	Replay  string   `json:"replay,omitempty"`
	OpsN    int      `json:"ops"`
	// Starting marks the line a worker prints before executing a run, so the
	// parent knows which plan was in flight if the process dies (a panic in a
	// goroutine of the code under test cannot be recovered in-process).
	Starting bool `json:"starting,omitempty"`
}

// crashSite extracts a stable signature from a Go crash dump.
func crashSite(stderr string) string {
	lines := strings.Split(stderr, "\n")
	started := false
	for _, l := range lines {
		if strings.HasPrefix(l, "panic:") || strings.HasPrefix(l, "fatal error:") {
			started = true
			continue
		}
		if started && strings.HasPrefix(l, "github.com/MixinNetwork/mixin/") {
			f := strings.TrimPrefix(l, "github.com/MixinNetwork/mixin/")
			if j := strings.LastIndex(f, "("); j > 0 {
				f = f[:j]
			}
			return f
		}
	}
	return "unknown"
}

func isCrashDump(stderr string) bool {
	return strings.Contains(stderr, "\npanic:") || strings.HasPrefix(stderr, "panic:") || strings.Contains(stderr, "fatal error:")
}

// ExecInChild runs one plan in a fresh process of this binary so that a
// process-level crash of the code under test is observable.
func ExecInChild(plan *Plan) (out *Outcome, crashed bool, stderr string) {
	self, _ := os.Executable()
	f, err := os.CreateTemp("", "verifplan-*.json")
	if err != nil {
		o := NewOutcome()
		o.ToolError = err.Error()
		return o, false, ""
	}
	defer os.Remove(f.Name())
	json.NewEncoder(f).Encode(plan)
	f.Close()
	cmd := exec.Command(self, "execplan", "-file", f.Name())
	cmd.Env = append(os.Environ(), "GOMAXPROCS=1")
	var eb, ob strings.Builder
	cmd.Stderr, cmd.Stdout = &eb, &ob
	err = cmd.Run()
	stderr = eb.String()
	out = NewOutcome()
	if jerr := json.Unmarshal([]byte(ob.String()), out); jerr == nil && err == nil {
		return out, false, stderr
	}
	if isCrashDump(stderr) {
		out.Violation = &Violation{Property: plan.Prop, Signature: "process-crash:" + crashSite(stderr), Detail: firstLines(stderr, 40)}
		return out, true, stderr
	}
	out.ToolError = fmt.Sprintf("child failed: %v %s", err, firstLines(stderr, 5))
	return out, false, stderr
}

// ExecPlanFile is the child side of ExecInChild.
func ExecPlanFile(path string) int {
	b, err := os.ReadFile(path)
	if err != nil {
		return 2
	}
	var plan Plan
	if err := json.Unmarshal(b, &plan); err != nil {
		return 2
	}
	prop := Lookup(plan.Prop)
	if prop == nil {
		return 2
	}
	out := execGuard(prop, &plan)
	if out.Violation == nil {
		findings := LoadFindings(filepath.Join(os.Getenv("VERIF_DIR"), "known_findings.json"))
		for _, sv := range out.Soft {
			if findings.Known(sv.Property, sv.Signature) == nil {
				out.Violation = sv
				break
			}
		}
	}
	json.NewEncoder(os.Stdout).Encode(out)
	return 0
}

func execGuard(prop *Property, p *Plan) (out *Outcome) {
	defer func() {
		if r := recover(); r != nil {
			out = NewOutcome()
			out.ToolError = fmt.Sprintf("harness panic: %v\n%s", r, debug.Stack())
		}
	}()
	return prop.Exec(p)
}

// Worker executes runs i, i+of, i+2*of, ... and prints one JSON line each.
func Worker(prop *Property, tier string, seed uint64, idx, of int, w *bufio.Writer, verifDir string) int {
	maxRuns, wall := prop.QuickRuns, prop.QuickWall
	if tier == "thorough" {
		maxRuns, wall = prop.ThoroughRuns, prop.ThoroughWall
	}
	findings := LoadFindings(filepath.Join(verifDir, "known_findings.json"))
	start := time.Now()
	var enumerated []*Plan
	if prop.Enumerate != nil {
		enumerated = prop.Enumerate(tier, seed)
		maxRuns = len(enumerated)
	}
	enc := json.NewEncoder(w)
	for run := idx; run < maxRuns; run += of {
		if time.Since(start) > wall {
			break
		}
		runSeed := core.SplitMix64(seed ^ core.SplitMix64(uint64(run)+1))
		var plan *Plan
		if enumerated != nil {
			plan = enumerated[run]
		} else {
			plan = SeededPlan(prop, tier, seed, run)
		}
		plan.Prop = prop.ID
		enc.Encode(&RunRecord{Run: run, RunSeed: runSeed, Plan: plan, Starting: true})
		w.Flush()
		t0 := time.Now()
		out := execGuard(prop, plan)
		rec := &RunRecord{Run: run, RunSeed: runSeed, Out: out, WallMs: time.Since(t0).Milliseconds(), OpsN: len(plan.Ops)}
		if run < 2*of {
			rec.Plan = plan
		}
		if out.ToolError != "" {
			enc.Encode(rec)
			w.Flush()
			return 2
		}
		if out.Violation == nil {
			seenSoft := map[string]bool{}
			for _, sv := range out.Soft {
				if findings.Known(sv.Property, sv.Signature) != nil {
					if !seenSoft[sv.Signature] {
						seenSoft[sv.Signature] = true
						out.Known = append(out.Known, sv.Signature)
					}
					continue
				}
				out.Violation = sv
				break
			}
		}
		if v := out.Violation; v != nil {
			if k := findings.Known(v.Property, v.Signature); k != nil {
				out.Known = append(out.Known, v.Signature)
				out.Violation = nil
			} else {
				min := Minimise(prop, plan, v, 90*time.Second)
				rec.Plan = min
				mo := execGuard(prop, min)
				if mo.Violation == nil {
					for _, sv := range mo.Soft {
						if sv.Signature == v.Signature {
							mo.Violation = sv
						}
					}
				}
				if mo.Violation != nil && mo.Violation.Signature == v.Signature {
					mo.Known = out.Known
					out, v = mo, mo.Violation
					rec.Out = mo
				}
				rec.OpsN = len(min.Ops)
				rec.Replay = WriteReplay(verifDir, prop.ID, runSeed, min, v, out)
				enc.Encode(rec)
				w.Flush()
				return 1
			}
		}
		enc.Encode(rec)
		w.Flush()
	}
	return 0
}

// Minimise shrinks the plan's op list by delta debugging while the same
// violation signature reproduces. Every candidate is a fresh execution.
func Minimise(prop *Property, plan *Plan, v *Violation, budget time.Duration) *Plan {
	deadline := time.Now().Add(budget)
	same := func(p *Plan) bool {
		out := execGuard(prop, p)
		if out.Violation != nil && out.Violation.Property == v.Property && out.Violation.Signature == v.Signature {
			return true
		}
		for _, sv := range out.Soft {
			if sv.Property == v.Property && sv.Signature == v.Signature {
				return true
			}
		}
		return false
	}
	cur := plan.Clone()
	// the original must reproduce; otherwise report it unshrunk
	if !same(cur) {
		return cur
	}
	n := 2
	for len(cur.Ops) >= 1 && time.Now().Before(deadline) {
		chunk := (len(cur.Ops) + n - 1) / n
		reduced := false
		for start := 0; start < len(cur.Ops) && time.Now().Before(deadline); start += chunk {
			end := start + chunk
			if end > len(cur.Ops) {
				end = len(cur.Ops)
			}
			cand := cur.Clone()
			cand.Ops = append(append([]Op{}, cur.Ops[:start]...), cur.Ops[end:]...)
			if same(cand) {
				cur = cand
				n = max(n-1, 2)
				reduced = true
				break
			}
		}
		if !reduced {
			if chunk <= 1 {
				break
			}
			n = min(n*2, len(cur.Ops))
		}
	}
	return cur
}

type ReplayFile struct {
	Property  string     `json:"property"`
	RunSeed   uint64     `json:"run_seed"`
	Plan      *Plan      `json:"plan"`
	Violation *Violation `json:"violation"`
	LogTail   []string   `json:"log_tail"`
}

func WriteReplay(verifDir, id string, runSeed uint64, plan *Plan, v *Violation, out *Outcome) string {
	dir := filepath.Join(verifDir, "replays")
	os.MkdirAll(dir, 0755)
	path := filepath.Join(dir, fmt.Sprintf("%s-%d.json", id, runSeed))
	rf := &ReplayFile{Property: id, RunSeed: runSeed, Plan: plan, Violation: v, LogTail: out.LogTail}
	b, _ := json.MarshalIndent(rf, "", " ")
	os.WriteFile(path, b, 0644)
	return path
}

// Replay re-executes a replay file; exit code 1 when the same violation
// signature reproduces, 0 if nothing is violated, 2 on mismatch.
func Replay(path string) int {
	b, err := os.ReadFile(path)
	if err != nil {
		fmt.Fprintln(os.Stderr, err)
		return 2
	}
	var rf ReplayFile
	if err := json.Unmarshal(b, &rf); err != nil {
		fmt.Fprintln(os.Stderr, err)
		return 2
	}
	prop := Lookup(rf.Property)
	if prop == nil {
		fmt.Fprintln(os.Stderr, "unknown property", rf.Property)
		return 2
	}
	rf.Plan.Prop = rf.Property
	out, _, _ := ExecInChild(rf.Plan)
	if out.ToolError != "" {
		fmt.Fprintln(os.Stderr, "tool error:", out.ToolError)
		return 2
	}
	if out.Violation != nil {
		if k := LoadFindings(filepath.Join(filepath.Dir(filepath.Dir(path)), "known_findings.json")).Known(out.Violation.Property, out.Violation.Signature); k != nil {
			fmt.Printf("KNOWN-FINDING: property=%s %s — %s\n", rf.Property, k.Signature, k.What)
			return 0
		}
	}
	if out.Violation == nil {
		fmt.Printf("replay: no violation (digest %s)\n", out.Digest)
		return 0
	}
	fmt.Printf("replay: %s %s\n%s\n", out.Violation.Property, out.Violation.Signature, firstLines(out.Violation.Detail, 12))
	if rf.Violation != nil && out.Violation.Signature != rf.Violation.Signature {
		fmt.Printf("replay: signature differs from recorded %s\n", rf.Violation.Signature)
	}
	fmt.Printf("VIOLATION property=%s replay=%s\n", rf.Property, path)
	return 1
}

func firstLines(s string, n int) string {
	lines := strings.Split(s, "\n")
	if len(lines) > n {
		lines = lines[:n]
	}
	return strings.Join(lines, "\n")
}

// One executes a single run (by index) and prints its record; for debugging.
// SeededPlan is the plan of run index `run` of a seeded (not enumerated) property.
func SeededPlan(prop *Property, tier string, seed uint64, run int) *Plan {
	if prop.Directed != nil {
		if d := prop.Directed(tier, seed); run < len(d) {
			return d[run]
		}
	}
	runSeed := core.SplitMix64(seed ^ core.SplitMix64(uint64(run)+1))
	return prop.Gen(core.NewRng(runSeed), tier)
}

func One(prop *Property, tier string, seed uint64, run int) int {
	runSeed := core.SplitMix64(seed ^ core.SplitMix64(uint64(run)+1))
	plan := SeededPlan(prop, tier, seed, run)
	plan.Prop = prop.ID
	t0 := time.Now()
	out := execGuard(prop, plan)
	b, _ := json.MarshalIndent(map[string]any{"run_seed": runSeed, "plan": plan, "out": out, "wall_ms": time.Since(t0).Milliseconds()}, "", " ")
	fmt.Println(string(b))
	if out.Violation != nil {
		return 1
	}
	return 0
}

// Digest prints the canonical-log digest of one run (determinism self-test).
func Digest(prop *Property, tier string, seed uint64, run int) int {
	plan := SeededPlan(prop, tier, seed, run)
	plan.Prop = prop.ID
	out := execGuard(prop, plan)
	if out.ToolError != "" {
		fmt.Println("ERR", out.ToolError)
		return 2
	}
	v := "-"
	if out.Violation != nil {
		v = out.Violation.Signature
	}
	fmt.Printf("%s %s %d %s\n", prop.ID, out.Digest, out.Evals, v)
	return 0
}

// Selftest proves replay determinism on a sample: every run index is
// executed in `repeats` fresh processes at several GOMAXPROCS values and the
// canonical-log digests must agree.
func Selftest(props []*Property, seed uint64, runs int) int {
	self, _ := os.Executable()
	type job struct {
		prop string
		run  int
		gmp  int
	}
	gmps := []int{1, 4, 16, 1}
	var jobs []job
	for _, p := range props {
		for r := 0; r < runs; r++ {
			for _, g := range gmps {
				jobs = append(jobs, job{p.ID, r, g})
			}
		}
	}
	results := make([]string, len(jobs))
	sem := make(chan struct{}, 12)
	var wg sync.WaitGroup
	for i, j := range jobs {
		wg.Add(1)
		sem <- struct{}{}
		go func(i int, j job) {
			defer wg.Done()
			defer func() { <-sem }()
			cmd := exec.Command(self, "digest", "-prop", j.prop, "-seed", fmt.Sprint(seed), "-run", fmt.Sprint(j.run))
			cmd.Env = append(os.Environ(), fmt.Sprintf("GOMAXPROCS=%d", j.gmp))
			b, err := cmd.Output()
			if err != nil {
				results[i] = "ERR " + err.Error()
				return
			}
			results[i] = strings.TrimSpace(string(b))
		}(i, j)
	}
	wg.Wait()
	bad := 0
	for i := 0; i < len(jobs); i += len(gmps) {
		first := results[i]
		ok := !strings.HasPrefix(first, "ERR")
		for k := 1; k < len(gmps); k++ {
			if results[i+k] != first {
				ok = false
			}
		}
		if !ok {
			bad++
			fmt.Printf("DIVERGENCE %s run %d:\n", jobs[i].prop, jobs[i].run)
			for k := range gmps {
				fmt.Printf("  GOMAXPROCS=%d: %s\n", gmps[k], results[i+k])
			}
		}
	}
	fmt.Printf("selftest: %d (property,run) pairs x %d processes, %d divergent\n", len(jobs)/len(gmps), len(gmps), bad)
	if bad > 0 {
		return 2
	}
	return 0
}

// ------------------------------------------------------------ parent side

type Evidence struct {
	PropertyID  string         `json:"property_id"`
	Tier        string         `json:"tier"`
	Seed        int64          `json:"seed"`
	Level       string         `json:"level"`
	Coverage    map[string]any `json:"coverage"`
	Assumptions []string       `json:"assumptions"`
	WallS       float64        `json:"wall_s"`
	Violations  int            `json:"violations"`
}

// Check fans the property out over worker processes of this same binary,
// merges their records, prints KNOWN-FINDING / VIOLATION lines and writes
// the evidence file.
func Check(prop *Property, tier string, seed uint64, workers int, verifDir string) int {
	self, err := os.Executable()
	if err != nil {
		fmt.Fprintln(os.Stderr, err)
		return 2
	}
	if prop.MaxWorkers > 0 && workers > prop.MaxWorkers {
		workers = prop.MaxWorkers
	}
	procs := 1
	if prop.WorkerProcs > 0 {
		procs = prop.WorkerProcs
	}
	// Every worker holds up to nine nodes with two Badger stores each; most of its footprint is garbage
	// between collections. A soft memory limit per worker (60% of what is available now, shared out)
	// keeps sixteen of them inside the machine; with very little memory fewer workers are started.
	memLimitMiB := 2048
	if avail := memAvailableMiB(); avail > 0 {
		per := avail * 6 / 10 / workers
		for per < 900 && workers > 1 {
			workers--
			per = avail * 6 / 10 / workers
		}
		if per < memLimitMiB {
			memLimitMiB = per
		}
		if memLimitMiB < 700 {
			memLimitMiB = 700
		}
	}
	runWatchdog := 75 * time.Minute
	if v, err := time.ParseDuration(os.Getenv("VERIF_RUN_WATCHDOG")); err == nil && v > 0 {
		runWatchdog = v
	}
	start := time.Now()
	var mu sync.Mutex
	var records []*RunRecord
	codes := make([]int, workers)
	inflight := make([]*RunRecord, workers)
	stderrs := make([]string, workers)
	var wg sync.WaitGroup
	for i := 0; i < workers; i++ {
		wg.Add(1)
		go func(i int) {
			defer wg.Done()
			cmd := exec.Command(self, "worker", "-prop", prop.ID, "-tier", tier, "-seed", fmt.Sprint(seed),
				"-idx", fmt.Sprint(i), "-of", fmt.Sprint(workers), "-verif", verifDir)
			var eb strings.Builder
			cmd.Stderr = &eb
			defer func() { stderrs[i] = eb.String() }()
			cmd.Env = append(os.Environ(), fmt.Sprintf("GOMAXPROCS=%d", procs), fmt.Sprintf("GOMEMLIMIT=%dMiB", memLimitMiB))
			stdout, err := cmd.StdoutPipe()
			if err != nil {
				codes[i] = 2
				return
			}
			if err := cmd.Start(); err != nil {
				codes[i] = 2
				return
			}
			// watchdog: one run (including its minimisation) that takes longer than this is killed and the
			// check ends as a tool error (exit 2) instead of hanging; simulated runs take seconds to minutes
			var lastEvent atomic.Int64
			lastEvent.Store(time.Now().UnixNano())
			stopWatch := make(chan struct{})
			defer close(stopWatch)
			go func() {
				t := time.NewTicker(10 * time.Second)
				defer t.Stop()
				for {
					select {
					case <-stopWatch:
						return
					case <-t.C:
						if time.Since(time.Unix(0, lastEvent.Load())) > runWatchdog {
							fmt.Fprintf(os.Stderr, "watchdog: worker %d produced nothing for %v, killing it\n", i, runWatchdog)
							cmd.Process.Kill()
							return
						}
					}
				}
			}()
			sc := bufio.NewScanner(stdout)
			sc.Buffer(make([]byte, 1<<20), 1<<28)
			for sc.Scan() {
				lastEvent.Store(time.Now().UnixNano())
				var rec RunRecord
				if err := json.Unmarshal(sc.Bytes(), &rec); err != nil {
					continue
				}
				if rec.Starting {
					r := rec
					inflight[i] = &r
					continue
				}
				inflight[i] = nil
				mu.Lock()
				records = append(records, &rec)
				mu.Unlock()
			}
			err = cmd.Wait()
			if err != nil {
				if ee, ok := err.(*exec.ExitError); ok {
					codes[i] = ee.ExitCode()
				} else {
					codes[i] = 2
				}
			}
		}(i)
	}
	wg.Wait()
	// a worker that died with a Go crash dump while a run was in flight: the
	// code under test crashed the process (e.g. a panic in one of its own
	// goroutines). Confirm in a fresh child, then report it as a violation.
	crashFindings := LoadFindings(filepath.Join(verifDir, "known_findings.json"))
	for i := 0; i < workers; i++ {
		if codes[i] == 0 || codes[i] == 1 || inflight[i] == nil {
			if codes[i] != 0 && codes[i] != 1 && stderrs[i] != "" {
				fmt.Fprint(os.Stderr, firstLines(stderrs[i], 30), "\n")
			}
			continue
		}
		if !isCrashDump(stderrs[i]) {
			fmt.Fprint(os.Stderr, firstLines(stderrs[i], 30), "\n")
			continue
		}
		rec := inflight[i]
		out, crashed, _ := ExecInChild(rec.Plan)
		if !crashed {
			fmt.Fprintf(os.Stderr, "worker %d crashed in run %d but the crash did not reproduce in a fresh process\n%s\n", i, rec.Run, firstLines(stderrs[i], 30))
			continue
		}
		codes[i] = 1
		rec.Out = out
		if k := crashFindings.Known(out.Violation.Property, out.Violation.Signature); k != nil {
			out.Known = append(out.Known, out.Violation.Signature)
			out.Violation = nil
		} else {
			rec.Replay = WriteReplay(verifDir, prop.ID, rec.RunSeed, rec.Plan, out.Violation, out)
		}
		records = append(records, rec)
	}
	wall := time.Since(start).Seconds()
	sort.Slice(records, func(i, j int) bool { return records[i].Run < records[j].Run })

	findings := LoadFindings(filepath.Join(verifDir, "known_findings.json"))
	faults, probes := map[string]int{}, map[string]int{}
	digests := map[string]bool{}
	distinctNT := map[string]bool{}
	var simS float64
	evals, violations, toolErr := 0, 0, 0
	known := map[string]int{}
	var samples []any
	var violationLines []string
	for _, r := range records {
		o := r.Out
		if o == nil {
			continue
		}
		if o.ToolError != "" {
			toolErr++
			fmt.Fprintf(os.Stderr, "tool error in run %d: %s\n", r.Run, o.ToolError)
			continue
		}
		evals += o.Evals
		simS += o.SimSeconds
		for k, v := range o.Faults {
			faults[k] += v
		}
		for k, v := range o.Probes {
			probes[k] += v
		}
		digests[o.Digest] = true
		if o.NonTrivial {
			distinctNT[o.Digest] = true
		}
		for _, k := range o.Known {
			known[k]++
		}
		if len(samples) < 3 && (o.Sample != nil || r.Plan != nil) {
			s := map[string]any{"run": r.Run, "run_seed": r.RunSeed, "digest": o.Digest}
			if o.Sample != nil {
				s["case"] = o.Sample
			}
			if r.Plan != nil {
				ops := r.Plan.Ops
				if len(ops) > 12 {
					ops = ops[:12]
				}
				s["plan_params"] = r.Plan.Params
				s["plan_ops_head"] = ops
				s["plan_ops_total"] = len(r.Plan.Ops)
			}
			samples = append(samples, s)
		}
		if o.Violation != nil {
			violations++
			violationLines = append(violationLines, fmt.Sprintf("VIOLATION property=%s replay=%s", prop.ID, r.Replay))
			fmt.Printf("violation signature: %s\n%s\n", o.Violation.Signature, firstLines(o.Violation.Detail, 20))
		}
	}
	// every listed (unrepaired) finding of this property is reported on every
	// run, with how often this run reproduced it
	for _, f := range findings.Findings {
		if f.Status == "known" && f.Property == prop.ID {
			fmt.Printf("KNOWN-FINDING: property=%s %s — %s (reproduced in %d runs of this check)\n", prop.ID, f.Signature, f.What, known[f.Signature])
		}
	}
	for _, l := range violationLines {
		fmt.Println(l)
	}

	runs := len(records)
	cov := map[string]any{
		"evaluations":         max(evals, 0),
		"runs":                runs,
		"distinct_nontrivial": len(distinctNT),
		"distinct_digests":    len(digests),
		"rule":                prop.Rule,
		"samples":             samples,
		"simulated_seconds":   simS,
		"runs_per_hour":       float64(runs) / wall * 3600,
		"faults_fired":        faults,
		"probes":              probes,
		"components":          prop.Components,
		"workers":             workers,
		"known_findings_hit":  known,
		"exhaustive":          prop.Enumerate != nil && violations == 0 && toolErr == 0 && runs == len(prop.Enumerate(tier, seed)),
	}
	if prop.Enumerate != nil {
		cov["enumerated_space"] = len(prop.Enumerate(tier, seed))
	}
	ev := &Evidence{
		PropertyID:  prop.ID,
		Tier:        tier,
		Seed:        int64(seed & 0x7fffffffffffffff),
		Level:       prop.Level,
		Coverage:    cov,
		Assumptions: prop.Assume,
		WallS:       wall,
		Violations:  violations,
	}
	os.MkdirAll(filepath.Join(verifDir, "evidence"), 0755)
	b, _ := json.MarshalIndent(ev, "", " ")
	if err := os.WriteFile(filepath.Join(verifDir, "evidence", prop.ID+".json"), b, 0644); err != nil {
		fmt.Fprintln(os.Stderr, err)
		return 2
	}
	fmt.Printf("%s %s: runs=%d evals=%d distinct_nontrivial=%d sim_s=%.0f wall=%.1fs violations=%d known=%d\n",
		prop.ID, tier, runs, evals, len(distinctNT), simS, wall, violations, len(known))
	if violations > 0 {
		return 1
	}
	for _, c := range codes {
		if c != 0 && c != 1 {
			toolErr++
		}
	}
	if toolErr > 0 || runs == 0 {
		fmt.Fprintf(os.Stderr, "tool errors: %d, runs: %d\n", toolErr, runs)
		return 2
	}
	return 0
}

// memAvailableMiB reads MemAvailable from /proc/meminfo (0 if unknown).
func memAvailableMiB() int {
	b, err := os.ReadFile("/proc/meminfo")
	if err != nil {
		return 0
	}
	for _, l := range strings.Split(string(b), "\n") {
		if strings.HasPrefix(l, "MemAvailable:") {
			f := strings.Fields(l)
			if len(f) >= 2 {
				kb, _ := strconv.Atoi(f[1])
				return kb / 1024
			}
		}
	}
	return 0
}
