package props

import (
	"fmt"

	"verifsim/core"
	"verifsim/harness"
	"verifsim/storerig"

	"github.com/MixinNetwork/mixin/crypto"
)

// C23, concurrent part (rig R3c, see conc.go). In the running node the cache
// API is used from several goroutines at once (RPC admissions queue, peer
// handlers store, the queue worker retrieves and removes) and is protected
// only by Badger's optimistic transactions and a retry loop. In every round
// 2-4 tasks issue queue / store / retrieve / remove / get at the same time
// over a few payloads; the interleaving at the Badger transaction boundaries is
// a seeded schedule. The history of each round must be linearizable against
// the same credit model the sequential part uses (unconsumed queueings as an
// upper bound, guaranteed eligibility as a lower bound).

type c23State struct {
	body  []bool
	upper []int
	lower []bool
}

func (s *c23State) clone() *c23State {
	return &c23State{body: append([]bool(nil), s.body...), upper: append([]int(nil), s.upper...), lower: append([]bool(nil), s.lower...)}
}

type c23Call struct {
	kind    string
	a, b    int
	limit   int
	got     []int  // retrieve: payload indexes returned
	bad     string // retrieve/get: a defect visible without the model (duplicate, unknown, wrong body)
	present bool   // get
}

func c23Conc(p *harness.Plan) *harness.Outcome {
	c := newCtx("C23")
	f, err := storerig.NewFix(7)
	if err != nil {
		return c.tool(err)
	}
	defer f.Close()
	rng := core.NewRng(p.Seed)
	payloads, variants := int(p.P("payloads", 3)), int(p.P("variants", 2))
	txs := c23Txs(f, payloads, variants)
	hashes := make([]crypto.Hash, payloads)
	index := map[crypto.Hash]int{}
	offered := make([]map[string]bool, payloads)
	for i := range txs {
		hashes[i] = txs[i][0].PayloadHash()
		index[hashes[i]] = i
		offered[i] = map[string]bool{}
		for _, v := range txs[i] {
			offered[i][string(v.Marshal())] = true
		}
	}
	st := &c23State{body: make([]bool, payloads), upper: make([]int, payloads), lower: make([]bool, payloads)}

	step := func(s *c23State, o *concOp) (*c23State, bool) {
		call := o.data.(*c23Call)
		if o.panicked != "" {
			return s, false
		}
		if o.conflict() {
			return s, true // the optimistic transaction lost; nothing happened
		}
		if o.err != nil {
			return s, false
		}
		switch call.kind {
		case "queue":
			ns := s.clone()
			ns.body[call.a], ns.lower[call.a] = true, true
			ns.upper[call.a]++
			return ns, true
		case "store":
			ns := s.clone()
			ns.body[call.a] = true
			return ns, true
		case "remove":
			ns := s.clone()
			ns.body[call.a], ns.body[call.b] = false, false
			ns.lower[call.a], ns.lower[call.b] = false, false
			return ns, true
		case "get":
			return s, call.bad == "" && call.present == s.body[call.a]
		case "retrieve":
			if call.bad != "" || len(call.got) > call.limit {
				return s, false
			}
			seen := map[int]bool{}
			for _, a := range call.got {
				if s.upper[a] <= 0 || !s.body[a] {
					return s, false
				}
				seen[a] = true
			}
			possible := 0
			for a := range s.upper {
				if s.upper[a] > 0 && s.body[a] {
					possible++
				}
			}
			if call.limit >= possible {
				for a := range s.lower {
					if s.lower[a] && s.body[a] && !seen[a] {
						return s, false
					}
				}
			}
			ns := s.clone()
			for a := range seen {
				ns.upper[a]--
				ns.lower[a] = false
			}
			return ns, true
		}
		return s, false
	}

	rounds := int(p.P("rounds", 10))
	retrievals, returned, overlapped, conflicts := 0, 0, 0, 0
	for r := 0; r < rounds; r++ {
		k := 2 + rng.IntN(3)
		var tasks [][]*concOp
		var all []*concOp
		hot := rng.IntN(payloads)
		pick := func() int {
			if rng.Chance(0.7) {
				return hot
			}
			return rng.IntN(payloads)
		}
		for j := 0; j < k; j++ {
			var o *concOp
			switch weighted(rng, []int{4, 2, 4, 2, 1}) {
			case 0:
				a, v := pick(), rng.IntN(variants)
				o = &concOp{name: fmt.Sprintf("queue(%d/%d)", a, v), data: &c23Call{kind: "queue", a: a}}
				o.fn = func() error { return f.Store.CacheQueueTransaction(txs[a][v]) }
			case 1:
				a, v := pick(), rng.IntN(variants)
				o = &concOp{name: fmt.Sprintf("store(%d/%d)", a, v), data: &c23Call{kind: "store", a: a}}
				o.fn = func() error { return f.Store.CacheStoreTransaction(txs[a][v]) }
			case 2:
				call := &c23Call{kind: "retrieve", limit: rng.IntN(payloads + 2)}
				o = &concOp{name: fmt.Sprintf("retrieve(%d)", call.limit), data: call}
				o.fn = func() error {
					got, err := f.Store.CacheRetrieveTransactions(call.limit)
					if err != nil {
						return err
					}
					seen := map[int]bool{}
					for _, tx := range got {
						a, ok := index[tx.PayloadHash()]
						switch {
						case !ok:
							call.bad = "returned a transaction never offered"
						case seen[a]:
							call.bad = fmt.Sprintf("returned transaction %d twice", a)
						case !offered[a][string(tx.Marshal())]:
							call.bad = fmt.Sprintf("returned a body of %d never offered", a)
						}
						if ok {
							seen[a] = true
							call.got = append(call.got, a)
						}
					}
					return nil
				}
			case 3:
				a, b := pick(), rng.IntN(payloads)
				o = &concOp{name: fmt.Sprintf("remove(%d,%d)", a, b), data: &c23Call{kind: "remove", a: a, b: b}}
				o.fn = func() error { return f.Store.CacheRemoveTransactions([]crypto.Hash{hashes[a], hashes[b]}) }
			default:
				call := &c23Call{kind: "get", a: pick()}
				o = &concOp{name: fmt.Sprintf("get(%d)", call.a), data: call}
				o.fn = func() error {
					tx, err := f.Store.CacheGetTransaction(hashes[call.a])
					if err != nil {
						return err
					}
					call.present = tx != nil
					if tx != nil && (tx.PayloadHash() != hashes[call.a] || !offered[call.a][string(tx.Marshal())]) {
						call.bad = "wrong body"
					}
					return nil
				}
			}
			tasks = append(tasks, []*concOp{o})
			all = append(all, o)
		}
		points, err := runConcurrentTasks(rng, tasks, 600)
		if err != nil {
			return c.tool(fmt.Errorf("round %d: %v (%v)", r, err, points))
		}
		for i, o := range all {
			call := o.data.(*c23Call)
			c.logf("r%d %s [%d,%d] err=%v got=%v present=%v", r, o.name, o.call, o.ret, o.err != nil, call.got, call.present)
			if o.conflict() {
				conflicts++
			}
			for j := range all {
				if i < j && all[i].call < all[j].ret && all[j].call < all[i].ret {
					overlapped++
				}
			}
		}
		c.out.Evals++
		var end *c23State
		ok := linearizable(st, all, step, func(s *c23State) bool { end = s; return true })
		if !ok {
			desc := ""
			for _, o := range all {
				call := o.data.(*c23Call)
				desc += fmt.Sprintf(" %s[%d,%d]=>", o.name, o.call, o.ret)
				switch {
				case o.panicked != "":
					desc += "panic"
				case o.conflict():
					desc += "conflict"
				case o.err != nil:
					desc += "error " + o.err.Error()
				case call.kind == "retrieve":
					desc += fmt.Sprintf("%v %s", call.got, call.bad)
				case call.kind == "get":
					desc += fmt.Sprintf("present=%v %s", call.present, call.bad)
				default:
					desc += "ok"
				}
				desc += ";"
			}
			return c.viol("concurrent-history-not-linearizable", "round %d: no serial order of the concurrent cache operations is consistent with the queueing model (body %v, unconsumed<= %v, guaranteed %v):%s schedule %v", r, st.body, st.upper, st.lower, desc, points)
		}
		for _, o := range all {
			call := o.data.(*c23Call)
			if call.kind == "retrieve" && o.err == nil {
				retrievals++
				returned += len(call.got)
			}
		}
		st = end
		// the end state of a round is only known up to the order found; re-anchor the model with a
		// sequential drain so an ambiguity cannot leak into later rounds
		got, err := f.Store.CacheRetrieveTransactions(255)
		if err != nil {
			return c.viol("retrieve-error", "round %d drain: %v", r, err)
		}
		for _, tx := range got {
			if _, ok := index[tx.PayloadHash()]; !ok {
				return c.viol("retrieve-unknown", "round %d drain returned a transaction never offered", r)
			}
		}
		for a := range st.upper {
			st.upper[a], st.lower[a] = 0, false
		}
		for a := range st.body {
			tx, err := f.Store.CacheGetTransaction(hashes[a])
			if err != nil {
				return c.viol("get-error", "round %d: %v", r, err)
			}
			st.body[a] = tx != nil
		}
	}
	c.out.Probes["conc_retrievals"] += retrievals
	c.out.Probes["conc_returned"] += returned
	c.out.Probes["conc_overlapping_pairs"] += overlapped
	c.out.Probes["conc_optimistic_conflicts"] += conflicts
	c.out.Faults["interleaved_store_calls"] += overlapped
	return c.done(retrievals > 0 && returned > 0 && overlapped > 0, map[string]any{"mode": "concurrent", "rounds": rounds, "retrievals": retrievals, "returned": returned, "overlapping_pairs": overlapped})
}
