// verifsim is the single binary behind every registered check.
//
//	verifsim check  -prop C23 -tier quick [-seed N] [-workers 16]
//	verifsim worker -prop C23 -tier quick -seed N -idx i -of n   (internal)
//	verifsim replay -file replays/C23-123.json
//	verifsim list
package main

import (
	"bufio"
	"encoding/json"
	"flag"
	"fmt"
	"os"
	"runtime"
	"strconv"

	"verifsim/harness"
	_ "verifsim/props"
)

func main() {
	if len(os.Args) < 2 {
		fmt.Fprintln(os.Stderr, "usage: verifsim check|worker|replay|list ...")
		os.Exit(2)
	}
	cmd := os.Args[1]
	fs := flag.NewFlagSet(cmd, flag.ExitOnError)
	prop := fs.String("prop", "", "property id")
	tier := fs.String("tier", "quick", "quick|thorough")
	seedS := fs.String("seed", "", "VERIF_SEED")
	workers := fs.Int("workers", 0, "worker processes")
	idx := fs.Int("idx", 0, "")
	of := fs.Int("of", 1, "")
	verif := fs.String("verif", "/verif", "verif directory")
	file := fs.String("file", "", "replay file")
	run := fs.Int("run", 0, "run index (one)")
	fs.Parse(os.Args[2:])

	seed := uint64(20260921)
	if s := os.Getenv("VERIF_SEED"); s != "" && *seedS == "" {
		*seedS = s
	}
	if *seedS != "" {
		v, err := strconv.ParseUint(*seedS, 10, 64)
		if err != nil {
			if sv, err2 := strconv.ParseInt(*seedS, 10, 64); err2 == nil {
				v = uint64(sv)
			} else {
				fmt.Fprintln(os.Stderr, "bad seed:", *seedS)
				os.Exit(2)
			}
		}
		seed = v
	}
	if t := os.Getenv("VERIF_TIER"); t != "" && !flagSet(fs, "tier") {
		*tier = t
	}

	switch cmd {
	case "list":
		for _, id := range harness.IDs() {
			fmt.Println(id)
		}
	case "check":
		p := harness.Lookup(*prop)
		if p == nil {
			fmt.Fprintln(os.Stderr, "unknown property", *prop)
			os.Exit(2)
		}
		w := *workers
		if w <= 0 {
			w = runtime.NumCPU()
			if w > 16 {
				w = 16
			}
		}
		fmt.Printf("VERIF_SEED=%d property=%s tier=%s workers=%d\n", seed, p.ID, *tier, w)
		os.Exit(harness.Check(p, *tier, seed, w, *verif))
	case "worker":
		p := harness.Lookup(*prop)
		if p == nil {
			os.Exit(2)
		}
		w := bufio.NewWriterSize(os.Stdout, 1<<20)
		code := harness.Worker(p, *tier, seed, *idx, *of, w, *verif)
		w.Flush()
		os.Exit(code)
	case "one":
		if os.Getenv("GOMAXPROCS") == "" {
			runtime.GOMAXPROCS(1) // like the workers
		}
		p := harness.Lookup(*prop)
		if p == nil {
			os.Exit(2)
		}
		os.Exit(harness.One(p, *tier, seed, *run))
	case "digest":
		p := harness.Lookup(*prop)
		if p == nil {
			os.Exit(2)
		}
		os.Exit(harness.Digest(p, *tier, seed, *run))
	case "selftest":
		var ps []*harness.Property
		for _, id := range harness.IDs() {
			if *prop == "" || *prop == id {
				ps = append(ps, harness.Lookup(id))
			}
		}
		n := *run
		if n <= 0 {
			n = 8
		}
		os.Exit(harness.Selftest(ps, seed, n))
	case "plans":
		// prints the enumerated plans of a fault-enumeration property, one JSON object per line
		p := harness.Lookup(*prop)
		if p == nil {
			os.Exit(2)
		}
		if p.Enumerate == nil {
			// seeded property: the plans of the first 64 runs
			for run := 0; run < 64; run++ {
				pl := harness.SeededPlan(p, *tier, seed, run)
				pl.Prop = p.ID
				b, _ := json.Marshal(pl)
				fmt.Println(string(b))
			}
			return
		}
		for _, pl := range p.Enumerate(*tier, seed) {
			pl.Prop = p.ID
			b, _ := json.Marshal(pl)
			fmt.Println(string(b))
		}
	case "execplan":
		os.Exit(harness.ExecPlanFile(*file))
	case "replay":
		os.Exit(harness.Replay(*file))
	default:
		fmt.Fprintln(os.Stderr, "unknown command", cmd)
		os.Exit(2)
	}
}

func flagSet(fs *flag.FlagSet, name string) bool {
	found := false
	fs.Visit(func(f *flag.Flag) {
		if f.Name == name {
			found = true
		}
	})
	return found
}
