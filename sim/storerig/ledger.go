package storerig

import (
	"fmt"

	"github.com/MixinNetwork/mixin/common"
	"github.com/MixinNetwork/mixin/crypto"
)

// Known key prefixes of the durable database, longest first where one is a
// prefix of another.
var Prefixes = []string{
	"CONSENSUSSNAPSHOT", "CUSTODIANUPDATE", "NODESTATEQUEUE", "NODEOPERATION",
	"SPACECHECKPOINT", "SPACEQUEUE", "WORKCHECKPOINT", "WORKSNAPSHOT", "WORKPROPOSE", "WORKVOTE",
	"MINTUNIVERSAL", "FINALIZATION", "TRANSACTION", "WITHDRAWAL", "ASSETTOTAL", "ASSETINFO",
	"SNAPSHOT", "SNAPTOPO", "TOPOLOGY", "DEPOSIT", "UNIQUE", "GHOST", "ROUND", "LINK", "UTXO",
}

func PrefixOf(key string) string {
	for _, p := range Prefixes {
		if len(key) >= len(p) && key[:len(p)] == p {
			return p
		}
	}
	return "?"
}

// CountByPrefix summarises a key list.
func CountByPrefix(keys []string) map[string]int {
	m := map[string]int{}
	for _, k := range keys {
		m[PrefixOf(k)]++
	}
	return m
}

// Admit performs the durable admission of a transaction exactly as the
// kernel does after validation: lock inputs, then write the body.
func (f *Fix) Admit(tx *common.VersionedTransaction, fork bool) error {
	if err := tx.LockInputs(f.Store, fork); err != nil {
		return err
	}
	return f.Store.WriteTransaction(tx)
}

// Finalize writes one snapshot of `node` holding txs at timestamp ts.
func (f *Fix) Finalize(node int, ts uint64, txs []*common.VersionedTransaction, signers []crypto.Hash) (*common.SnapshotWithTopologicalOrder, error) {
	hs := make([]crypto.Hash, len(txs))
	for i, t := range txs {
		hs[i] = t.PayloadHash()
	}
	snap := f.Snapshot(node, ts, hs)
	if signers == nil {
		signers = []crypto.Hash{f.NodeIds[node]}
	}
	err := f.Store.WriteSnapshot(snap, signers)
	if err == nil {
		f.NextTopo++
	}
	return snap, err
}

// MakeSpend builds a transfer of all of `in` (outputs of earlier
// transactions owned by user `owner`) to `outs` fresh outputs.
func (f *Fix) MakeSpend(asset crypto.Hash, ins []*common.UTXO, owner int, amounts []common.Integer, dst []int, nonce string) *common.VersionedTransaction {
	tx := common.NewTransactionV5(asset)
	for _, in := range ins {
		tx.AddInput(in.Hash, in.Index)
	}
	for i, a := range amounts {
		sh := crypto.Blake3Hash([]byte(fmt.Sprintf("SPEND%s%d%s%d", ins[0].Hash, ins[0].Index, nonce, i)))
		seed := append(sh[:], sh[:]...)
		tx.AddScriptOutput([]*common.Address{f.User(dst[i])}, common.NewThresholdScript(1), a, seed)
	}
	signed := &common.SignedTransaction{Transaction: *tx}
	for _, in := range ins {
		if err := signed.SignUTXO(in, []*common.Address{f.User(owner)}); err != nil {
			panic(err)
		}
	}
	return Decoded(signed.AsVersioned())
}

// UTXOOf extracts output i of a transaction as a spendable UTXO.
func UTXOOf(ver *common.VersionedTransaction, i int) *common.UTXO {
	out := ver.Outputs[i]
	return &common.UTXO{
		Input:  common.Input{Hash: ver.PayloadHash(), Index: uint(i)},
		Output: common.Output{Type: out.Type, Amount: out.Amount, Keys: out.Keys, Script: out.Script, Mask: out.Mask},
		Asset:  ver.Asset,
	}
}
