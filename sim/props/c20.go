package props

import (
	"bytes"
	"encoding/binary"
	"fmt"
	"sort"
	"time"

	"verifsim/cluster"
	"verifsim/core"
	"verifsim/harness"

	"github.com/MixinNetwork/mixin/common"
	"github.com/MixinNetwork/mixin/crypto"
)

// C20 — round links only move forward and never point at their own chain.
//
// R1: real consensus traffic over several chains under reordering,
// duplication, partitions, clock skew and crash/restart, plus a Byzantine
// proposer that re-sends its own announcements with stale, self, unknown and
// regressing references (re-signed, since the simulator holds the keys).
// Monitor on every StartNewRound / UpdateEmptyHeadRound seen by the store
// wrapper (pre-state read before the call, post-state after it); fingerprint
// of every chain's durable head/links and in-memory links after every step.

// roundHashRef recomputes a final round hash from the documented commitment:
// H(nodeId || number) chained with the snapshot hashes ordered by
// (timestamp, hash).
func roundHashRef(nodeId crypto.Hash, number uint64, snaps []*common.SnapshotWithTopologicalOrder) (start uint64, hash crypto.Hash) {
	type e struct {
		ts uint64
		h  crypto.Hash
	}
	es := make([]e, len(snaps))
	for i, s := range snaps {
		es[i] = e{s.Timestamp, s.PayloadHash()}
	}
	sort.Slice(es, func(i, j int) bool {
		if es[i].ts != es[j].ts {
			return es[i].ts < es[j].ts
		}
		return bytes.Compare(es[i].h[:], es[j].h[:]) < 0
	})
	buf := binary.BigEndian.AppendUint64(append([]byte{}, nodeId[:]...), number)
	hash = crypto.Blake3Hash(buf)
	for _, x := range es {
		hash = crypto.Blake3Hash(append(hash[:], x.h[:]...))
	}
	return es[0].ts, hash
}

type c20Pre struct {
	head     *common.Round
	linkPrev uint64
	ext      *common.Round
	selfHash crypto.Hash
	prevOK   bool
}

type c20Mon struct {
	cluster.BaseMonitor
	r       *crun
	pre     map[*cluster.StoreCall]*c20Pre
	fp      map[int]map[crypto.Hash]string // node -> chain -> fingerprint
	touched map[int]map[crypto.Hash]bool
	starts  int
	updates int
}

func (m *c20Mon) BeforeStore(n *cluster.SNode, call *cluster.StoreCall) {
	if call.Name != "StartNewRound" && call.Name != "UpdateEmptyHeadRound" {
		return
	}
	node := call.Args[0].(crypto.Hash)
	number := call.Args[1].(uint64)
	refs, _ := call.Args[2].(*common.RoundLink)
	if number == 0 || refs == nil {
		return
	}
	p := &c20Pre{}
	p.head, _ = n.Store.ReadRound(node)
	p.ext, _ = n.Store.ReadRound(refs.External)
	if p.ext != nil {
		p.linkPrev, _ = n.Store.ReadLink(node, p.ext.NodeId)
	}
	prevNumber := number - 1
	if call.Name == "UpdateEmptyHeadRound" {
		prevNumber = number - 1
	}
	snaps, err := n.Store.ReadSnapshotsForNodeRound(node, prevNumber)
	if err == nil && len(snaps) > 0 {
		_, p.selfHash = roundHashRef(node, prevNumber, snaps)
		p.prevOK = true
	}
	m.pre[call] = p
}

func (m *c20Mon) AfterStore(n *cluster.SNode, call *cluster.StoreCall) {
	p := m.pre[call]
	if p == nil {
		return
	}
	delete(m.pre, call)
	if call.Err != nil {
		return
	}
	c := m.r.c
	node := call.Args[0].(crypto.Hash)
	number := call.Args[1].(uint64)
	refs := call.Args[2].(*common.RoundLink)
	m.r.out.Evals++
	if m.touched[n.Idx] == nil {
		m.touched[n.Idx] = map[crypto.Hash]bool{}
	}
	m.touched[n.Idx][node] = true
	if call.Name == "StartNewRound" {
		m.starts++
		if p.head == nil || number != p.head.Number+1 {
			c.Violate("C20", "round-number-not-successor", fmt.Sprintf("chain %s started round %d on head %v", node.String()[:8], number, p.head), n)
			return
		}
	} else {
		m.updates++
		if p.head == nil || number != p.head.Number {
			c.Violate("C20", "empty-head-update-wrong-round", fmt.Sprintf("chain %s updated head references of round %d on head %v", node.String()[:8], number, p.head), n)
			return
		}
	}
	if !p.prevOK || refs.Self != p.selfHash {
		c.Violate("C20", "self-reference-not-previous-round", fmt.Sprintf("chain %s round %d commits to %s, previous final round hashes to %s", node.String()[:8], number, refs.Self.String()[:8], p.selfHash.String()[:8]), n)
		return
	}
	if p.ext == nil {
		// only the finalized path may start a round whose external round is
		// not known yet; the stored link must then stay untouched, which the
		// fingerprint check covers.
		m.r.out.Probes["start_with_unknown_external"]++
		return
	}
	if p.ext.NodeId == node {
		c.Violate("C20", "external-reference-own-chain", fmt.Sprintf("chain %s round %d references its own round %d", node.String()[:8], number, p.ext.Number), n)
		return
	}
	if p.ext.Hash != refs.External {
		c.Violate("C20", "external-reference-not-final-round", "external reference does not name a stored final round", n)
		return
	}
	if p.ext.Number < p.linkPrev {
		c.Violate("C20", "external-link-regressed", fmt.Sprintf("chain %s link to %s moved from %d back to %d", node.String()[:8], p.ext.NodeId.String()[:8], p.linkPrev, p.ext.Number), n)
		return
	}
	after, _ := n.Store.ReadLink(node, p.ext.NodeId)
	if after != p.ext.Number {
		c.Violate("C20", "link-not-recorded", fmt.Sprintf("link after transition is %d, referenced round is %d", after, p.ext.Number), n)
	}
}

func (m *c20Mon) fingerprint(n *cluster.SNode) map[crypto.Hash]string {
	out := map[crypto.Hash]string{}
	ids := n.Node.SimChainIDs()
	for _, id := range ids {
		ch := n.Node.SimChain(id)
		if ch == nil || ch.State == nil {
			continue
		}
		head, _ := n.Store.ReadRound(id)
		s := ""
		if head != nil {
			s = fmt.Sprintf("%d|%s|%s|", head.Number, head.References.Self.String()[:8], head.References.External.String()[:8])
		}
		for _, o := range ids {
			if o == id {
				continue
			}
			l, _ := n.Store.ReadLink(id, o)
			mem := ch.State.RoundLinks[o]
			s += fmt.Sprintf("%d/%d,", l, mem)
			if l != mem {
				s += "MISMATCH"
			}
		}
		out[id] = s
	}
	return out
}

func (m *c20Mon) AfterStep(n *cluster.SNode, kind string) {
	switch kind {
	case "poll", "final", "deliver", "queue":
	default:
		return
	}
	c := m.r.c
	fp := m.fingerprint(n)
	prev := m.fp[n.Idx]
	for id, s := range fp {
		if containsStr(s, "MISMATCH") {
			c.Violate("C20", "memory-link-differs-from-durable", fmt.Sprintf("chain %s on n%d: durable/in-memory links %s", id.String()[:8], n.Idx, s), n)
			return
		}
		if prev != nil && prev[id] != "" && prev[id] != s && !m.touched[n.Idx][id] {
			c.Violate("C20", "state-changed-without-transition", fmt.Sprintf("chain %s on n%d changed round/link state from %s to %s although no round transition succeeded in this step (%s)", id.String()[:8], n.Idx, prev[id], s, kind), n)
			return
		}
	}
	m.fp[n.Idx] = fp
	delete(m.touched, n.Idx)
	m.r.out.Evals++
}

func (m *c20Mon) OnRestart(n *cluster.SNode) {
	fp := m.fingerprint(n)
	for id, s := range fp {
		if containsStr(s, "MISMATCH") {
			m.r.c.Violate("C20", "memory-link-differs-from-durable-after-restart", fmt.Sprintf("chain %s on n%d: %s", id.String()[:8], n.Idx, s), n)
			return
		}
	}
	m.fp[n.Idx] = fp
}

func c20Gen(rng *core.Rng, tier string) *harness.Plan {
	p := &harness.Plan{Seed: rng.Uint64(), Params: map[string]int64{}}
	if rng.Chance(0.5) {
		c20InjectGen(rng, tier, p) // finalized path, see c20inject.go
		return p
	}
	baseClusterParams(rng, p)
	dur := time.Duration(40+rng.IntN(30)) * time.Second
	if tier == "thorough" {
		dur = time.Duration(60+rng.IntN(120)) * time.Second
	}
	p.Params["dur_ms"] = int64(dur / time.Millisecond)
	honestWorkload(rng, p, 2*time.Second, dur, 10+rng.IntN(14), 4+rng.IntN(8))
	networkFaults(rng, p, 2*time.Second, dur, rng.IntN(4))
	for i := 0; i < rng.IntN(3); i++ {
		p.Ops = append(p.Ops, harness.Op{At: int64(rng.Dur(3*time.Second, dur) / time.Microsecond), Kind: "skew", N: rng.IntN(9), A: int64(rng.IntN(4000) - 2000)})
	}
	for i := 0; i < rng.IntN(3); i++ {
		p.Ops = append(p.Ops, harness.Op{At: int64(rng.Dur(3*time.Second, dur) / time.Microsecond), Kind: "crash", N: rng.IntN(9), A: int64(300 + rng.IntN(5000))})
	}
	if rng.Chance(0.6) {
		// a failing disk under the round-transition writes of some nodes
		for i := 0; i < 1+rng.IntN(4); i++ {
			p.Ops = append(p.Ops, harness.Op{At: int64(rng.Dur(3*time.Second, dur) / time.Microsecond), Kind: "failround", N: rng.IntN(9), A: int64(rng.IntN(2)), B: int64(rng.IntN(3) / 2)})
		}
	}
	p.Params["byz_refs"] = 1
	if rng.Chance(0.3) {
		p.Params["byz_refs"] = 0
	}
	sortOps(p)
	return p
}

func c20Exec(p *harness.Plan) *harness.Outcome {
	if p.P("inject_refs", 0) == 1 {
		return c20InjectExec(p)
	}
	r, err := newClusterRun("C20", p)
	if err != nil {
		o := harness.NewOutcome()
		o.ToolError = err.Error()
		return o
	}
	defer r.c.Close()
	mon := &c20Mon{r: r, pre: map[*cluster.StoreCall]*c20Pre{}, fp: map[int]map[crypto.Hash]string{}, touched: map[int]map[crypto.Hash]bool{}}
	r.c.AddMonitor(mon)
	if p.P("byz_refs", 0) == 1 {
		r.c.AddMonitor(newRefTamper(r))
	}
	if err := r.c.Boot(); err != nil {
		r.out.ToolError = err.Error()
		return r.out
	}
	r.schedule()
	r.c.Run(time.Duration(p.P("dur_ms", 40000)) * time.Millisecond)
	fin, total := 0, 0
	if !r.c.Halt {
		fin, total = r.settle(60*time.Second, true)
	}
	r.out.Probes["round_starts"] += mon.starts
	r.out.Probes["empty_head_updates"] += mon.updates
	r.out.Probes["accepted_finalized"] += fin
	r.out.Probes["accepted_total"] += total
	relabelPanic(r, "C20")
	return r.finish(mon.starts > 0, map[string]any{"round_starts": mon.starts, "empty_head_updates": mon.updates, "finalized": fin, "accepted": total})
}

func init() {
	harness.Register(&harness.Property{
		ID:    "C20",
		Level: "exploration",
		Rule: "seeded cluster runs (7-9 real nodes, 10-23 deposits + transfers so that chains advance several rounds and reference each other) under swarm network faults, clock skew, crash/restart and (half of the runs) a Byzantine relay that rewrites the references of announcements to self/stale/unknown/regressing rounds and re-signs them; every StartNewRound/UpdateEmptyHeadRound is judged against pre/post durable state, and every chain's head/link fingerprint is compared after each step; " +
			"half of the runs are finalized-path runs: an injected multi-chain history (18-27 snapshots) with 4-6 validly certified snapshots whose references are stale / name the own chain / mismatch the previous round / redirect an empty head round to a stale round, each sent to one victim that is restarted afterwards, and (60%) a strict-path proposal whose external round is six hours older than the best candidate; " +
			"non-trivial = at least one round transition observed; distinct = canonical-log digests",
		Components: clusterComponents,
		Assume:     clusterAssume,
		Gen:        c20Gen,
		Exec:       c20Exec,
		QuickRuns:  64, ThoroughRuns: 3000,
		QuickWall: 45 * time.Second, ThoroughWall: 12 * time.Minute,
	})
}
