package props

import (
	"crypto/ed25519"
	"filippo.io/edwards25519"
	"fmt"
	"math/big"
	"sort"
	"strings"

	"verifsim/cluster"
	"verifsim/core"

	"github.com/MixinNetwork/mixin/common"
	"github.com/MixinNetwork/mixin/crypto"
	"github.com/MixinNetwork/mixin/p2p"
	"github.com/MixinNetwork/mixin/storage"
)

// Adversarial client: transactions derived from the model ledger and then
// mutated. Each carries a by-construction verdict; admitted transactions
// are additionally re-checked independently against the admitting node's
// own durable records.

type advTx struct {
	tx     *common.VersionedTransaction
	label  string
	class  string // valid | conservation | authorization | shape
	valid  bool
	coins  []*cluster.Coin // produced when valid
	source []*cluster.Coin
}

// units converts an amount to integer base units without using the repo's
// arithmetic.
func units(a common.Integer) *big.Int {
	s := a.String()
	neg := strings.HasPrefix(s, "-")
	s = strings.TrimPrefix(s, "-")
	parts := strings.SplitN(s, ".", 2)
	frac := ""
	if len(parts) == 2 {
		frac = parts[1]
	}
	for len(frac) < 8 {
		frac += "0"
	}
	v, ok := new(big.Int).SetString(parts[0]+frac[:8], 10)
	if !ok {
		return big.NewInt(-1)
	}
	if neg {
		v.Neg(v)
	}
	return v
}

func amountFromUnits(u *big.Int) common.Integer {
	s := u.String()
	for len(s) < 9 {
		s = "0" + s
	}
	return common.NewIntegerFromString(s[:len(s)-8] + "." + s[len(s)-8:])
}

// checkConservation recomputes the value rule from the node's own records.
func checkConservation(store *storage.BadgerStore, tx *common.VersionedTransaction) (bool, string) {
	in := new(big.Int)
	seen := map[string]bool{}
	special := false
	for _, i := range tx.Inputs {
		switch {
		case i.Deposit != nil:
			in = units(i.Deposit.Amount)
			special = true
		case i.Mint != nil:
			in = units(i.Mint.Amount)
			special = true
		case len(i.Genesis) > 0:
			return false, "genesis input"
		default:
			k := fmt.Sprintf("%s:%d", i.Hash, i.Index)
			if seen[k] {
				return false, "duplicate input " + k
			}
			seen[k] = true
			u, err := store.ReadUTXOLock(i.Hash, i.Index)
			if err != nil || u == nil {
				return false, "input does not exist " + k
			}
			if u.Asset != tx.Asset {
				return false, "input of another asset " + k
			}
			in.Add(in, units(u.Amount))
		}
		if special {
			if len(tx.Inputs) != 1 {
				return false, "special input mixed with others"
			}
			break
		}
	}
	out := new(big.Int)
	for n, o := range tx.Outputs {
		a := units(o.Amount)
		if a.Sign() <= 0 {
			return false, fmt.Sprintf("output %d not positive", n)
		}
		out.Add(out, a)
	}
	if in.Sign() <= 0 {
		return false, "input total not positive"
	}
	if in.Cmp(out) != 0 {
		return false, fmt.Sprintf("inputs %s != outputs %s", in, out)
	}
	return true, ""
}

// checkAuthorization verifies per-input signature maps independently with
// crypto/ed25519. decidable is false for aggregate signatures.
func checkAuthorization(store *storage.BadgerStore, tx *common.VersionedTransaction) (ok bool, why string, decidable bool) {
	if tx.AggregatedSignature != nil {
		return true, "", false
	}
	msg := tx.PayloadHash()
	for n, i := range tx.Inputs {
		if i.Deposit != nil || i.Mint != nil || len(i.Genesis) > 0 {
			continue
		}
		u, err := store.ReadUTXOLock(i.Hash, i.Index)
		if err != nil || u == nil {
			return false, "input missing", true
		}
		if u.Type != common.OutputTypeScript && u.Type != common.OutputTypeNodeRemove {
			continue // kernel-controlled outputs (pledge, accept) carry no owner keys
		}
		threshold := 0
		if len(u.Script) == 3 {
			threshold = int(u.Script[2])
		}
		if threshold == 0 {
			continue
		}
		if n >= len(tx.SignaturesMap) {
			return false, fmt.Sprintf("input %d has no signature map", n), true
		}
		good := 0
		for idx, sig := range tx.SignaturesMap[n] {
			if int(idx) >= len(u.Keys) || sig == nil {
				return false, fmt.Sprintf("input %d signature index %d out of range", n, idx), true
			}
			if ed25519.Verify(ed25519.PublicKey(u.Keys[idx][:]), msg[:], sig[:]) {
				good++
			} else {
				return false, fmt.Sprintf("input %d signature %d invalid", n, idx), true
			}
		}
		if good < threshold {
			return false, fmt.Sprintf("input %d has %d valid signatures, threshold %d", n, good, threshold), true
		}
	}
	return true, "", true
}

// advMon observes every admission point.
type advMon struct {
	cluster.BaseMonitor
	r        *crun
	prop     string
	byHash   map[crypto.Hash]*advTx
	admitted map[crypto.Hash]bool
	checks   int
}

func (m *advMon) admit(n *cluster.SNode, tx *common.VersionedTransaction, where string) {
	c := m.r.c
	h := tx.PayloadHash()
	m.checks++
	m.r.out.Evals++
	if a := m.byHash[h]; a != nil && !a.valid {
		// the very body that was admitted decides (a forged body of a valid payload
		// shares the hash): compare authorization data too
		if a.class == "conservation" || (a.class == "authorization" && string(a.tx.Marshal()) == string(tx.Marshal())) {
			prop := map[string]string{"conservation": "C01", "authorization": "C02"}[a.class]
			c.Violate(prop, "forged-transaction-admitted:"+a.label, fmt.Sprintf("n%d %s transaction %s (%s)", n.Idx, where, h.String()[:8], a.label), n)
			return
		}
	}
	if m.prop == "C01" || m.prop == "C05" {
		if ok, why := checkConservation(n.Store, tx); !ok {
			c.Violate("C01", "non-conserving-transaction-admitted", fmt.Sprintf("n%d %s transaction %s: %s", n.Idx, where, h.String()[:8], why), n)
			return
		}
	}
	if m.prop == "C02" || m.prop == "C05" {
		if ok, why, dec := checkAuthorization(n.Store, tx); dec && !ok {
			c.Violate("C02", "unauthorized-transaction-admitted", fmt.Sprintf("n%d %s transaction %s: %s", n.Idx, where, h.String()[:8], why), n)
			return
		}
	}
	m.admitted[h] = true
}

func (m *advMon) BeforeStore(n *cluster.SNode, call *cluster.StoreCall) {
	if call.Name == "WriteTransaction" {
		m.admit(n, call.Args[0].(*common.VersionedTransaction), "persisted")
	}
}

func (m *advMon) OnSend(from, to *cluster.SNode, data []byte) [][]byte {
	if p2p.SimMessageType(data) == p2p.PeerMessageTypeTransactionBundle {
		if msg, err := p2p.SimParse(data); err == nil {
			for _, tx := range msg.Transactions {
				m.admit(from, tx, "forwarded")
			}
		}
	}
	return nil
}

// build derives one (possibly forged) transaction from the model ledger.
func advBuild(r *crun, rng *core.Rng, kind string, label string) *advTx {
	c := r.c
	pick := func(asset *crypto.Hash, not *cluster.Coin, owners int) *cluster.Coin {
		for try := 0; try < 8; try++ {
			coin := r.pickCoin(rng.IntN(1 << 20))
			if coin == nil {
				return nil
			}
			if coin == not || (asset != nil && coin.Asset != *asset) || (owners > 0 && len(coin.Owners) != owners) {
				continue
			}
			if !c.FinalizedEverywhere(coin.Tx) {
				continue
			}
			return coin
		}
		return nil
	}
	coin := pick(nil, nil, 0)
	if coin == nil {
		return nil
	}
	two := func(a *big.Int) (x, y *big.Int) {
		x = new(big.Int).Div(a, big.NewInt(3))
		if x.Sign() == 0 {
			x = big.NewInt(1)
		}
		y = new(big.Int).Sub(a, x)
		return
	}
	total := units(coin.Amount)
	if total.Cmp(big.NewInt(4)) < 0 {
		return nil
	}
	x, y := two(total)
	outs := []cluster.OutSpec{{Owners: []int{rng.IntN(4)}, Threshold: 1, Amount: amountFromUnits(x)}, {Owners: coin.Owners, Threshold: coin.Threshold, Amount: amountFromUnits(y)}}
	a := &advTx{label: kind, source: []*cluster.Coin{coin}}
	mk := func(coins []*cluster.Coin, outs []cluster.OutSpec, extra []byte) {
		a.tx, a.coins = c.MakeTransfer(coins, outs, extra, label)
		a.source = coins
	}
	resign := func(signers func(coin *cluster.Coin) []*common.Address) {
		signed := &common.SignedTransaction{Transaction: a.tx.Transaction}
		for _, src := range a.source {
			accounts := signers(src)
			if len(accounts) == 0 {
				signed.SignaturesMap = append(signed.SignaturesMap, map[uint16]*crypto.Signature{})
				continue
			}
			if err := signUTXOLoose(signed, src.UTXO, accounts); err != nil {
				signed.SignaturesMap = append(signed.SignaturesMap, map[uint16]*crypto.Signature{})
			}
		}
		a.tx = signed.AsVersioned()
	}
	honest := func(src *cluster.Coin) []*common.Address {
		k := int(src.Threshold)
		if k == 0 {
			k = 1
		}
		var out []*common.Address
		for _, u := range src.Owners[:k] {
			out = append(out, c.User(u))
		}
		return out
	}
	switch kind {
	case "valid":
		mk([]*cluster.Coin{coin}, outs, nil)
		a.class, a.valid = "valid", true
	case "valid-two-inputs":
		other := pick(&coin.Asset, coin, 0)
		if other == nil {
			return nil
		}
		sum := new(big.Int).Add(total, units(other.Amount))
		mk([]*cluster.Coin{coin, other}, []cluster.OutSpec{{Owners: []int{1, 2, 3}, Threshold: 2, Amount: amountFromUnits(sum)}}, nil)
		a.class, a.valid = "valid", true
	case "valid-aggregate":
		mk([]*cluster.Coin{coin}, outs, nil)
		signed := &common.SignedTransaction{Transaction: a.tx.Transaction}
		seed := make([]byte, 64)
		rng.Bytes(seed)
		if err := signed.AggregateSign(coinReader{a.source}, [][]*common.Address{honest(coin)}, seed); err != nil {
			return nil
		}
		a.tx = signed.AsVersioned()
		a.class, a.valid = "valid", true
	case "sum-plus-one", "sum-minus-one":
		d := big.NewInt(1)
		if kind == "sum-minus-one" {
			d = big.NewInt(-1)
		}
		outs[0].Amount = amountFromUnits(new(big.Int).Add(x, d))
		mk([]*cluster.Coin{coin}, outs, nil)
		a.class = "conservation"
	case "huge-outputs":
		big1 := new(big.Int).Lsh(big.NewInt(1), uint(100+rng.IntN(300)))
		outs[0].Amount = amountFromUnits(big1)
		mk([]*cluster.Coin{coin}, outs, nil)
		a.class = "conservation"
	case "wrapping-outputs":
		// every output fits a machine word but the output total exceeds the inputs by exactly 2^k
		k := []uint{32, 63, 64, 64, 64, 128}[rng.IntN(6)]
		half := new(big.Int).Lsh(big.NewInt(1), k-1)
		outs[0].Amount = amountFromUnits(new(big.Int).Add(half, x))
		outs[1].Amount = amountFromUnits(new(big.Int).Add(half, y))
		mk([]*cluster.Coin{coin}, outs, nil)
		a.class = "conservation"
	case "aliased-input-index":
		// names an output index that does not exist (real index + a multiple of 256 / 65536), authorized with
		// the keys of the real output; alone, or next to the real output so the same value counts twice
		ghost := *coin
		u := *coin.UTXO
		ghost.UTXO = &u
		step := []uint{256, 256, 512, 768}[rng.IntN(4)]
		ghost.Index = coin.Index + step
		ghost.UTXO.Index = coin.UTXO.Index + step
		coins := []*cluster.Coin{&ghost}
		if rng.Chance(0.5) {
			coins = []*cluster.Coin{coin, &ghost}
			sum := new(big.Int).Add(total, total)
			outs = []cluster.OutSpec{{Owners: []int{1}, Threshold: 1, Amount: amountFromUnits(sum)}}
		}
		func() {
			defer func() { recover() }() // the honest signer refuses a key mismatch; signatures are redone below
			mk(coins, outs, nil)
		}()
		if a.tx == nil {
			tx := common.NewTransactionV5(coin.Asset)
			for _, cn := range coins {
				tx.AddInput(cn.Tx, cn.Index)
			}
			for i, o := range outs {
				sh := crypto.Blake3Hash([]byte(fmt.Sprintf("ALIAS%s%d%s%d", coin.Tx, coin.Index, label, i)))
				accounts := make([]*common.Address, len(o.Owners))
				for j, uo := range o.Owners {
					accounts[j] = c.User(uo)
				}
				tx.AddScriptOutput(accounts, common.NewThresholdScript(o.Threshold), o.Amount, append(sh[:], sh[:]...))
			}
			a.tx = (&common.SignedTransaction{Transaction: *tx}).AsVersioned()
			a.source = coins
		}
		signed := &common.SignedTransaction{Transaction: a.tx.Transaction}
		for range coins {
			if err := signUTXOLoose(signed, coin.UTXO, honest(coin)); err != nil {
				return nil
			}
		}
		a.tx = signed.AsVersioned()
		a.coins = nil
		a.class = "conservation"
	case "two-assets":
		var other *cluster.Coin
		for try := 0; try < 8 && other == nil; try++ {
			o := pick(nil, coin, 0)
			if o != nil && o.Asset != coin.Asset {
				other = o
			}
		}
		if other == nil {
			return nil
		}
		sum := new(big.Int).Add(total, units(other.Amount))
		mk([]*cluster.Coin{coin, other}, []cluster.OutSpec{{Owners: []int{1}, Threshold: 1, Amount: amountFromUnits(sum)}}, nil)
		a.class = "conservation"
	case "duplicate-input":
		sum := new(big.Int).Add(total, total)
		mk([]*cluster.Coin{coin, coin}, []cluster.OutSpec{{Owners: []int{1}, Threshold: 1, Amount: amountFromUnits(sum)}}, nil)
		a.class = "conservation"
	case "nonexistent-input":
		ghost := *coin
		u := *coin.UTXO
		ghost.UTXO = &u
		rng.Bytes(ghost.Tx[:])
		ghost.UTXO.Hash = ghost.Tx
		mk([]*cluster.Coin{&ghost}, outs, nil)
		a.class = "conservation"
	case "deposit-amount-mismatch":
		tx, _ := c.MakeDeposit(cluster.AssetSOL, common.NewIntegerFromString("3"), "adv-"+label, 0, []int{1}, 1)
		signed := tx.SignedTransaction
		signed.Outputs[0].Amount = common.NewIntegerFromString("3.00000001")
		signed.SignaturesMap = nil
		if err := signed.SignRaw(c.Domain.PrivateSpendKey); err != nil {
			return nil
		}
		a.tx, a.class = signed.AsVersioned(), "conservation"
	case "wrong-signer":
		mk([]*cluster.Coin{coin}, outs, nil)
		resign(func(src *cluster.Coin) []*common.Address { return []*common.Address{c.User(9)} })
		a.class = "authorization"
	case "below-threshold":
		c3 := pick(nil, nil, 3)
		if c3 == nil {
			return nil
		}
		mk([]*cluster.Coin{c3}, []cluster.OutSpec{{Owners: []int{0}, Threshold: 1, Amount: c3.Amount}}, nil)
		resign(func(src *cluster.Coin) []*common.Address { return []*common.Address{c.User(src.Owners[rng.IntN(3)])} })
		a.class = "authorization"
	case "no-signatures":
		mk([]*cluster.Coin{coin}, outs, nil)
		resign(func(src *cluster.Coin) []*common.Address { return nil })
		a.class = "authorization"
	case "signature-index-out-of-range":
		mk([]*cluster.Coin{coin}, outs, nil)
		m := a.tx.SignaturesMap[0]
		for k, v := range m {
			delete(m, k)
			m[uint16(len(coin.UTXO.Keys)+rng.IntN(3))] = v
			break
		}
		a.class = "authorization"
	case "flipped-signature-bit":
		mk([]*cluster.Coin{coin}, outs, nil)
		for _, v := range a.tx.SignaturesMap[0] {
			v[rng.IntN(64)] ^= 1 << uint(rng.IntN(8))
			break
		}
		a.class = "authorization"
	case "compensating-signature-errors":
		// two signatures of one transaction are each invalid, but their errors cancel in any check that
		// only looks at an unweighted combination of them (S halves swapped, or +d / -d)
		var other *cluster.Coin
		if rng.Chance(0.5) {
			other = pick(&coin.Asset, coin, 0)
		}
		if other != nil {
			sum := new(big.Int).Add(total, units(other.Amount))
			mk([]*cluster.Coin{coin, other}, []cluster.OutSpec{{Owners: []int{1}, Threshold: 1, Amount: amountFromUnits(sum)}}, nil)
		} else {
			c3 := pick(nil, nil, 3)
			if c3 == nil || c3.Threshold < 2 {
				return nil
			}
			mk([]*cluster.Coin{c3}, []cluster.OutSpec{{Owners: []int{0}, Threshold: 1, Amount: c3.Amount}}, nil)
		}
		var sigs []*crypto.Signature
		for _, mp := range a.tx.SignaturesMap {
			ks := make([]int, 0, len(mp))
			for k := range mp {
				ks = append(ks, int(k))
			}
			sort.Ints(ks)
			for _, k := range ks {
				sigs = append(sigs, mp[uint16(k)])
			}
		}
		if len(sigs) < 2 {
			return nil
		}
		x1, x2 := sigs[0], sigs[1]
		if rng.Chance(0.5) {
			var t [32]byte
			copy(t[:], x1[32:])
			copy(x1[32:], x2[32:])
			copy(x2[32:], t[:])
		} else {
			s1, e1 := edwards25519.NewScalar().SetCanonicalBytes(x1[32:])
			s2, e2 := edwards25519.NewScalar().SetCanonicalBytes(x2[32:])
			if e1 != nil || e2 != nil {
				return nil
			}
			var db [64]byte
			rng.Bytes(db[:])
			d, _ := edwards25519.NewScalar().SetUniformBytes(db[:])
			copy(x1[32:], edwards25519.NewScalar().Add(s1, d).Bytes())
			copy(x2[32:], edwards25519.NewScalar().Subtract(s2, d).Bytes())
		}
		a.class = "authorization"
	case "payload-changed-after-signing":
		mk([]*cluster.Coin{coin}, outs, nil)
		sigs := a.tx.SignaturesMap
		t2 := a.tx.Transaction
		t2.Extra = []byte("changed after signing " + label)
		signed := &common.SignedTransaction{Transaction: t2, SignaturesMap: sigs}
		a.tx, a.class = signed.AsVersioned(), "authorization"
		a.coins = nil
	case "swapped-signature-maps":
		var other *cluster.Coin
		for try := 0; try < 8 && other == nil; try++ {
			o := pick(&coin.Asset, coin, 0)
			if o != nil && fmt.Sprint(o.Owners) != fmt.Sprint(coin.Owners) {
				other = o
			}
		}
		if other == nil {
			return nil
		}
		sum := new(big.Int).Add(total, units(other.Amount))
		mk([]*cluster.Coin{coin, other}, []cluster.OutSpec{{Owners: []int{1}, Threshold: 1, Amount: amountFromUnits(sum)}}, nil)
		sm := a.tx.SignaturesMap
		sm[0], sm[1] = sm[1], sm[0]
		a.class = "authorization"
	case "aggregate-missing-signer":
		c3 := pick(nil, nil, 3)
		if c3 == nil {
			return nil
		}
		mk([]*cluster.Coin{c3}, []cluster.OutSpec{{Owners: []int{0}, Threshold: 1, Amount: c3.Amount}}, nil)
		signed := &common.SignedTransaction{Transaction: a.tx.Transaction}
		seed := make([]byte, 64)
		rng.Bytes(seed)
		if err := signed.AggregateSign(coinReader{a.source}, [][]*common.Address{{c.User(c3.Owners[0])}}, seed); err != nil {
			return nil
		}
		a.tx, a.class = signed.AsVersioned(), "authorization"
	case "aggregate-shifted-signers":
		mk([]*cluster.Coin{coin}, outs, nil)
		signed := &common.SignedTransaction{Transaction: a.tx.Transaction}
		seed := make([]byte, 64)
		rng.Bytes(seed)
		if err := signed.AggregateSign(coinReader{a.source}, [][]*common.Address{honest(coin)}, seed); err != nil {
			return nil
		}
		for i := range signed.AggregatedSignature.Signers {
			signed.AggregatedSignature.Signers[i]++
		}
		a.tx, a.class = signed.AsVersioned(), "authorization"
	default:
		return nil
	}
	if a.tx == nil {
		return nil
	}
	if !a.valid {
		a.coins = nil
	}
	return a
}

// coinReader serves output keys to the repo's signing helpers from the
// client's own records.
type coinReader struct{ coins []*cluster.Coin }

func (cr coinReader) ReadUTXOKeys(hash crypto.Hash, index uint) (*common.UTXOKeys, error) {
	for _, c := range cr.coins {
		if c.Tx == hash && c.Index == index {
			return &common.UTXOKeys{Mask: c.UTXO.Mask, Keys: c.UTXO.Keys}, nil
		}
	}
	return nil, nil
}

// signUTXOLoose signs with accounts that may not own the output: a foreign
// account signs with its own spend key at index 0.
func signUTXOLoose(signed *common.SignedTransaction, utxo *common.UTXO, accounts []*common.Address) error {
	msg := signed.AsVersioned().PayloadHash()
	sigs := map[uint16]*crypto.Signature{}
	for _, acc := range accounts {
		priv := crypto.DeriveGhostPrivateKey(&utxo.Mask, &acc.PrivateViewKey, &acc.PrivateSpendKey, uint64(utxo.Index))
		idx := -1
		for i, k := range utxo.Keys {
			if priv.Public() == *k {
				idx = i
			}
		}
		if idx < 0 {
			idx = len(sigs)
		}
		sig := priv.Sign(msg)
		sigs[uint16(idx)] = &sig
	}
	signed.SignaturesMap = append(signed.SignaturesMap, sigs)
	return nil
}

var advValidKinds = []string{"valid", "valid", "valid-two-inputs", "valid-aggregate"}
var advConservationKinds = []string{"sum-plus-one", "sum-minus-one", "huge-outputs", "wrapping-outputs", "aliased-input-index", "two-assets", "duplicate-input", "nonexistent-input", "deposit-amount-mismatch"}
var advAuthorizationKinds = []string{"compensating-signature-errors", "wrong-signer", "below-threshold", "no-signatures", "signature-index-out-of-range", "flipped-signature-bit", "payload-changed-after-signing", "swapped-signature-maps", "aggregate-missing-signer", "aggregate-shifted-signers"}
