package cluster

import (
	"fmt"

	"github.com/MixinNetwork/mixin/common"
	"github.com/MixinNetwork/mixin/crypto"
	"github.com/MixinNetwork/mixin/storage"
)

// StoreCall describes one intercepted storage call.
type StoreCall struct {
	Name    string
	Ordinal int // per node incarnation-independent write ordinal (mutating calls only)
	Args    []any
	Err     error
	Result  any
}

// crashSignal is the panic value used to stop a node inside a storage call.
type crashSignal struct{ node int }

// injectedError marks store errors produced by the simulator.
type injectedError struct{ msg string }

func (e *injectedError) Error() string { return e.msg }

// WStore wraps the real BadgerStore. It is the crash-point seam, the store
// error injection seam and the observation point for invariant monitors.
type WStore struct {
	*storage.BadgerStore
	c *Cluster
	n *SNode
}

func (w *WStore) before(name string, args ...any) *StoreCall {
	n := w.n
	n.WriteOrdinal++
	call := &StoreCall{Name: name, Ordinal: n.WriteOrdinal, Args: args}
	if w.c.Cfg.LogStore {
		w.c.Trace.Logf(w.c.Q.Now, "store n%d #%d %s", n.Idx, call.Ordinal, name)
	}
	for _, m := range w.c.Monitors {
		m.BeforeStore(n, call)
	}
	if n.crashOrdinal == call.Ordinal && n.crashBefore {
		n.crashOrdinal = 0
		w.c.count("crash.before." + name)
		panic(crashSignal{n.Idx})
	}
	return call
}

func (w *WStore) after(call *StoreCall, err error) {
	n := w.n
	call.Err = err
	for _, m := range w.c.Monitors {
		m.AfterStore(n, call)
	}
	if n.crashOrdinal == call.Ordinal && !n.crashBefore {
		n.crashOrdinal = 0
		w.c.count("crash.after." + call.Name)
		panic(crashSignal{n.Idx})
	}
}

// injected returns the I/O error armed for this call, if any.
func (w *WStore) injected(name string) error {
	if w.n.failCalls[name] <= 0 {
		return nil
	}
	w.n.failCalls[name]--
	w.c.count("storeerr." + name)
	return &injectedError{"injected " + name + " I/O error"}
}

func (w *WStore) WriteTransaction(tx *common.VersionedTransaction) error {
	call := w.before("WriteTransaction", tx)
	err := w.BadgerStore.WriteTransaction(tx)
	w.after(call, err)
	return err
}

func (w *WStore) StartNewRound(node crypto.Hash, number uint64, references *common.RoundLink, finalStart uint64) error {
	call := w.before("StartNewRound", node, number, references, finalStart)
	if err := w.injected("StartNewRound"); err != nil {
		w.after(call, err)
		return err
	}
	err := w.BadgerStore.StartNewRound(node, number, references, finalStart)
	w.after(call, err)
	return err
}

func (w *WStore) UpdateEmptyHeadRound(node crypto.Hash, number uint64, references *common.RoundLink) error {
	call := w.before("UpdateEmptyHeadRound", node, number, references)
	if err := w.injected("UpdateEmptyHeadRound"); err != nil {
		w.after(call, err)
		return err
	}
	err := w.BadgerStore.UpdateEmptyHeadRound(node, number, references)
	w.after(call, err)
	return err
}

func (w *WStore) WriteConsensusSnapshot(snap *common.Snapshot, tx *common.VersionedTransaction, hack *common.Snapshot) error {
	call := w.before("WriteConsensusSnapshot", snap, tx)
	err := w.BadgerStore.WriteConsensusSnapshot(snap, tx, hack)
	w.after(call, err)
	return err
}

func (w *WStore) LockUTXOs(inputs []*common.Input, tx crypto.Hash, fork bool) error {
	call := w.before("LockUTXOs", inputs, tx, fork)
	err := w.BadgerStore.LockUTXOs(inputs, tx, fork)
	w.after(call, err)
	return err
}

func (w *WStore) LockDepositInput(deposit *common.DepositData, tx crypto.Hash, fork bool) error {
	call := w.before("LockDepositInput", deposit, tx, fork)
	err := w.BadgerStore.LockDepositInput(deposit, tx, fork)
	w.after(call, err)
	return err
}

func (w *WStore) LockMintInput(mint *common.MintData, tx crypto.Hash, fork bool) error {
	call := w.before("LockMintInput", mint, tx, fork)
	err := w.BadgerStore.LockMintInput(mint, tx, fork)
	w.after(call, err)
	return err
}

func (w *WStore) LockGhostKeys(keys []*crypto.Key, tx crypto.Hash, fork bool) error {
	call := w.before("LockGhostKeys", keys, tx, fork)
	err := w.BadgerStore.LockGhostKeys(keys, tx, fork)
	w.after(call, err)
	return err
}

func (w *WStore) WriteSnapshot(snap *common.SnapshotWithTopologicalOrder, signers []crypto.Hash) error {
	call := w.before("WriteSnapshot", snap, signers)
	if w.n.failWriteSnapshot > 0 {
		w.n.failWriteSnapshot--
		err := &injectedError{"injected WriteSnapshot I/O error"}
		w.c.count("storeerr.WriteSnapshot")
		w.after(call, err)
		return err
	}
	err := w.BadgerStore.WriteSnapshot(snap, signers)
	w.after(call, err)
	return err
}

func (w *WStore) AddNodeOperation(tx *common.VersionedTransaction, timestamp, threshold uint64, finalized bool) error {
	call := w.before("AddNodeOperation", tx, timestamp, threshold, finalized)
	err := w.BadgerStore.AddNodeOperation(tx, timestamp, threshold, finalized)
	w.after(call, err)
	return err
}

func (w *WStore) CacheStoreTransaction(tx *common.VersionedTransaction) error {
	call := w.before("CacheStoreTransaction", tx)
	err := w.BadgerStore.CacheStoreTransaction(tx)
	w.after(call, err)
	return err
}

func (w *WStore) CacheQueueTransaction(tx *common.VersionedTransaction) error {
	call := w.before("CacheQueueTransaction", tx)
	err := w.BadgerStore.CacheQueueTransaction(tx)
	w.after(call, err)
	return err
}

func (w *WStore) CacheRetrieveTransactions(limit int) ([]*common.VersionedTransaction, error) {
	call := w.before("CacheRetrieveTransactions", limit)
	txs, err := w.BadgerStore.CacheRetrieveTransactions(limit)
	call.Result = txs
	w.after(call, err)
	return txs, err
}

func (w *WStore) CacheRemoveTransactions(hashes []crypto.Hash) error {
	call := w.before("CacheRemoveTransactions", hashes)
	err := w.BadgerStore.CacheRemoveTransactions(hashes)
	w.after(call, err)
	return err
}

func (w *WStore) WriteRoundWork(nodeId crypto.Hash, round uint64, snapshots []*common.SnapshotWork, credit bool) error {
	call := w.before("WriteRoundWork", nodeId, round, snapshots, credit)
	err := w.BadgerStore.WriteRoundWork(nodeId, round, snapshots, credit)
	w.after(call, err)
	return err
}

func (w *WStore) WriteRoundSpaceAndState(space *common.RoundSpace) error {
	call := w.before("WriteRoundSpaceAndState", space)
	err := w.BadgerStore.WriteRoundSpaceAndState(space)
	w.after(call, err)
	return err
}

func (c StoreCall) String() string {
	return fmt.Sprintf("#%d %s", c.Ordinal, c.Name)
}
