package props

import (
	"fmt"
	"sort"
	"strings"
	"time"

	"verifsim/cluster"
	"verifsim/harness"

	"github.com/MixinNetwork/mixin/common"
)

// C11 — historical consensus views depend only on earlier ledger records.
//
// Same long-horizon membership histories as C10. For every past instant
// around every record (t-1, t, t+1, +30 s, +12 h) that is not in the future
// of the clock at capture time, the view tuple (membership list with states
// and consensus indexes, accepted list, signer keys per chain, both
// thresholds, pledging node, elected operator per operation type, custodian)
// is captured from one node and must afterwards be reported identically by
// every node, after every later record, in any query order, and after
// restarts (state sequences rebuilt from disk, custodian cache empty).

func c11View(n *cluster.SNode, m *memRig, ts uint64) (view string) {
	defer func() {
		if r := recover(); r != nil {
			view = fmt.Sprintf("PANIC %v", r)
		}
	}()
	var b strings.Builder
	for _, cn := range n.Node.NodesListWithoutState(ts, false) {
		fmt.Fprintf(&b, "%s:%s:%d:%d;", cn.IdForNetwork.String()[:8], cn.State, cn.Timestamp, cn.ConsensusIndex)
	}
	b.WriteString("|acc:")
	for _, cn := range n.Node.NodesListWithoutState(ts, true) {
		fmt.Fprintf(&b, "%s,", cn.IdForNetwork.String()[:8])
	}
	fmt.Fprintf(&b, "|T:%d/%d", n.Node.ConsensusThreshold(ts, true), n.Node.ConsensusThreshold(ts, false))
	if p := n.Node.PledgingNode(ts); p != nil {
		fmt.Fprintf(&b, "|pledging:%s", p.IdForNetwork.String()[:8])
	}
	var chains []string
	for _, id := range m.idents[:m.c.Cfg.Nodes] { // chains that exist from genesis on (the set must not grow with later records)
		ch := n.Node.SimChain(id.id)
		if ch == nil {
			continue
		}
		ids, _ := ch.ConsensusKeys(1, ts)
		s := id.id.String()[:6] + "="
		for _, k := range ids {
			s += k.String()[:4]
		}
		chains = append(chains, s)
	}
	sort.Strings(chains)
	b.WriteString("|keys:" + strings.Join(chains, ";"))
	if len(n.Node.NodesListWithoutState(ts, true)) >= 7 {
		for _, op := range []byte{common.TransactionTypeMint, common.TransactionTypeNodePledge, common.TransactionTypeNodeRemove, common.TransactionTypeCustodianUpdateNodes} {
			fmt.Fprintf(&b, "|e%d:%s", op, n.Node.SimElect(op, ts).String()[:8])
		}
	}
	if cur, err := n.Store.ReadCustodian(ts); err == nil && cur != nil {
		fmt.Fprintf(&b, "|custodian:%s@%d:%d", cur.Custodian.String()[:12], cur.Timestamp, len(cur.Nodes))
	}
	// the durable membership history as the store reports it for that instant (what the RPC and the
	// custodian validation read), latest record per signer and full state sequence
	// (the store returns the latest-record list in no particular order; the kernel sorts it itself)
	for _, withState := range []bool{false, true} {
		var items []string
		for _, sn := range n.Store.ReadAllNodes(ts, withState) {
			items = append(items, fmt.Sprintf("%s:%s:%d", sn.Signer.String()[:8], sn.State, sn.Timestamp))
		}
		sort.Strings(items)
		fmt.Fprintf(&b, "|store%v:%s", withState, strings.Join(items, ","))
	}
	return b.String()
}

func c11Exec(p *harness.Plan) *harness.Outcome {
	views := map[uint64]string{}
	captured := map[uint64]uint64{}
	compares := 0
	after := func(m *memRig, kind string) {
		c := m.c
		now := m.now()
		var stamps []uint64
		for _, rec := range m.records {
			for _, t := range []uint64{rec.ts - 1, rec.ts, rec.ts + 1, rec.ts + 30*uint64(time.Second), rec.ts + 12*uint64(time.Hour), rec.ts + 12*uint64(time.Hour) + 1} {
				if t <= now {
					stamps = append(stamps, t)
				}
			}
		}
		stamps = append(stamps, uint64(c.Epoch.UnixNano())+1, uint64(c.Epoch.UnixNano())+uint64(time.Hour))
		// model: a record becomes visible strictly after its own timestamp
		want := map[string]string{"pledge": common.NodeStatePledging, "accept": common.NodeStateAccepted, "remove": common.NodeStateRemoved}
		for _, rec := range m.records {
			if want[rec.kind] == "" {
				continue // not a membership record (a mint): no state of its own to look for
			}
			id := m.idents[rec.who]
			for i := 0; i < c.Cfg.Nodes; i++ {
				n := c.Nodes[i]
				if !n.Alive {
					continue
				}
				stateAt := func(ts uint64) string {
					for _, cn := range n.Node.NodesListWithoutState(ts, false) {
						if cn.IdForNetwork == id.id {
							return fmt.Sprintf("%s@%d", cn.State, cn.Timestamp)
						}
					}
					return "absent"
				}
				compares += 2
				newState := fmt.Sprintf("%s@%d", want[rec.kind], rec.ts)
				if got := stateAt(rec.ts); got == newState {
					c.Violate("C11", "record-visible-at-its-own-timestamp", fmt.Sprintf("n%d: the %s of %s recorded at %d is already part of the view at %d", n.Idx, rec.kind, id.id.String()[:8], rec.ts, rec.ts), n)
					return
				}
				if got := stateAt(rec.ts + 1); got != newState {
					// a later record of the same identity may supersede it only at a later instant
					c.Violate("C11", "record-not-visible-after-its-timestamp", fmt.Sprintf("n%d: view at %d shows %s for %s, record says %s", n.Idx, rec.ts+1, got, id.id.String()[:8], newState), n)
					return
				}
			}
		}
		// query order differs per node and per round (PRNG)
		for i := 0; i < c.Cfg.Nodes; i++ {
			n := c.Nodes[i]
			if !n.Alive {
				continue
			}
			order := m.rng.Perm(len(stamps))
			for _, k := range order {
				ts := stamps[k]
				v := c11View(n, m, ts)
				compares++
				if old, ok := views[ts]; ok {
					if old != v {
						c.Violate("C11", "historical-view-changed", fmt.Sprintf("view at %d reported by n%d after %q differs from the one captured when the clock was %d:\n was %s\n now %s", ts, n.Idx, kind, captured[ts], old, v), n)
						return
					}
				} else {
					views[ts], captured[ts] = v, now
				}
				// the custodian answer must not depend on the memo cache
				a, _ := n.Store.ReadCustodian(ts)
				b, _ := n.Store.ReadCustodian(ts)
				if (a == nil) != (b == nil) || (a != nil && (a.Custodian.String() != b.Custodian.String() || a.Timestamp != b.Timestamp || a.Transaction != b.Transaction)) {
					c.Violate("C11", "custodian-lookup-unstable", fmt.Sprintf("ts %d on n%d", ts, n.Idx), n)
					return
				}
			}
		}
	}
	r, m, bad := runMembership("C11", p, after, nil)
	if bad != nil {
		return bad
	}
	defer r.c.Close()
	r.out.Evals += compares
	r.out.Probes["view_comparisons"] += compares
	r.out.Probes["instants_tracked"] += len(views)
	r.out.Probes["membership_records"] += len(m.records)
	relabelPanic(r, "C11")
	return r.finish(len(m.records) > 1, map[string]any{"records": len(m.records), "instants": len(views), "comparisons": compares})
}

func init() {
	harness.Register(&harness.Property{
		ID:    "C11",
		Level: "exploration",
		Rule: "seeded membership histories as for C10 (pledge / accept / remove / ordinary snapshots / restarts over simulated weeks); after every operation every live node reports, in PRNG order, the view tuple at every past instant around every record (t-1, t, t+1, +30 s, +12 h, +12 h+1, genesis+1 ns, genesis+1 h); the first captured tuple of an instant must never differ later, on any node, after any restart; custodian look-ups are repeated to hit and miss the memo cache; " +
			"the view tuple includes the durable ReadAllNodes(ts, false|true) lists; late histories contain universal mints; " +
			"non-trivial = at least two membership records; distinct = canonical-log digests. Custodian updates are not part of these histories (see C34).",
		Components: clusterComponents,
		Assume:     clusterAssume,
		Gen:        memGen("C11"),
		Exec:       c11Exec,
		QuickRuns:  64, ThoroughRuns: 2000,
		QuickWall: 45 * time.Second, ThoroughWall: 12 * time.Minute,
	})
}
