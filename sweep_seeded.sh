#!/bin/bash
# usage: sweep_seeded.sh [tier] [ids...] — runs every seeded change (or those of the given properties) against its property's check
cd "$(dirname "$0")"
tier=${1:-quick}; shift
ids=${*:-$(ls seeded)}
for id in $ids; do for d in seeded/$id/*/; do ./seedrun.sh $id $d/patch.diff $tier; done; done
