package props

import (
	"fmt"
	"time"

	"verifsim/cluster"
	"verifsim/core"
	"verifsim/harness"

	"github.com/MixinNetwork/mixin/common"
	"github.com/MixinNetwork/mixin/config"
	"github.com/MixinNetwork/mixin/crypto"
)

// C10 — any two threshold certificates share more than a third of the
// signer set.
//
// R1/k long-horizon: membership histories produced by real finalized
// pledge / accept / remove operations over simulated weeks (clock jumps from
// window to window), with restarts. At every record boundary (t-1, t, t+1,
// +30 s +-1, +12 h +-1, the edges of the node-operation window of that day and
// the next, the current time) and for every chain (incl. the pledging chain's
// round zero) every live node is asked for the certificate threshold and the
// key vector. Oracle: pure arithmetic on the two observed values,
// 3*(2T - |K|) > |K|, and T > |K| when fewer than the minimum membership is
// effective.

type c10Probe struct {
	ts    uint64
	round uint64
	chain crypto.Hash
}

func memGen(prop string) func(rng *core.Rng, tier string) *harness.Plan {
	return func(rng *core.Rng, tier string) *harness.Plan {
		p := &harness.Plan{Seed: rng.Uint64(), Params: map[string]int64{}}
		p.Params["nodes"] = 7
		if rng.Chance(0.3) {
			p.Params["nodes"] = int64(8 + rng.IntN(2))
		}
		extra := 3 + rng.IntN(5)
		if tier == "thorough" {
			extra = 5 + rng.IntN(20)
		}
		p.Params["extra_keys"] = int64(extra)
		p.Params["start_s"] = int64(20*3600 + rng.IntN(3600))
		mint := rng.Chance(0.5)
		if mint {
			// late histories: other day indices for the election
			p.Params["start_s"] += int64(1707+rng.IntN(1500)) * 86400
		}
		p.Params["op_period_s"] = 10000000 // the real election ticks are off: operations are injected
		if (prop == "C10" || prop == "C11") && rng.Chance(0.5) {
			p.Params["future_accept"] = 1
		}
		p.Params["maxlat_ms"] = int64(5 + rng.IntN(40))
		n := 8 + rng.IntN(10)
		if tier == "thorough" {
			n = 20 + rng.IntN(50)
		}
		for i := 0; i < n; i++ {
			kinds := []string{"pledge", "accept", "remove", "ordinary", "ordinary", "restart"}
			if prop == "C34" {
				kinds = []string{"custodian", "custodian", "custodian", "pledge", "accept", "remove", "ordinary", "restart"}
			} else if prop == "C28" || prop == "C29" {
				kinds = append(kinds, "custodian")
			}
			if mint && prop != "C34" && i > 0 {
				kinds = append(kinds, "mint") // late histories can mint (the rig manufactures the work and space records first)
			}
			op := harness.Op{Kind: "mem." + kinds[rng.IntN(len(kinds))], A: int64(rng.IntN(1000)), N: rng.IntN(9), S: fmt.Sprint("m", i)}
			p.Ops = append(p.Ops, op)
		}
		return p
	}
}

// runMembership executes the membership plan; `after` is called after every
// operation that changed the ledger.
func runMembership(prop string, p *harness.Plan, after func(m *memRig, kind string), variants func(m *memRig, kind string), setup ...func(r *crun)) (*crun, *memRig, *harness.Outcome) {
	r, err := newClusterRun(prop, p)
	if err != nil {
		o := harness.NewOutcome()
		o.ToolError = err.Error()
		return nil, nil, o
	}
	c := r.c
	for _, f := range setup {
		f(r)
	}
	if err := c.Boot(); err != nil {
		r.c.Close()
		r.out.ToolError = err.Error()
		return nil, nil, r.out
	}
	m, err := newMemRig(r, p.Seed)
	if err != nil {
		r.c.Close()
		r.out.ToolError = err.Error()
		return nil, nil, r.out
	}
	r.mem = m
	c.Run(2 * time.Second)
	for idx, op := range p.Ops {
		if c.Halt {
			break
		}
		done := false
		switch op.Kind {
		case "mem.pledge":
			if variants != nil {
				variants(m, "pledge")
			}
			done = m.pledge()
		case "mem.accept":
			if variants != nil {
				variants(m, "accept")
			}
			done = m.accept()
		case "mem.remove":
			if variants != nil {
				variants(m, "remove")
			}
			done = m.remove()
		case "mem.custodian":
			if variants != nil {
				variants(m, "custodian")
			}
			done = m.custodian()
		case "mem.mint":
			if variants != nil {
				variants(m, "mint")
			}
			done = m.mint()
		case "mem.ordinary":
			if it := m.ordinary(int(op.A)); it != nil {
				done = m.settle(it, 10*time.Second)
			}
		case "mem.bulk":
			// many ordinary snapshots in a row (so that consensus operations lie far apart in the topology)
			var last *injected
			for k := int64(0); k < op.A && !c.Halt; k++ {
				if it := m.ordinary(int(op.B + k%3)); it != nil {
					last = it
				}
				if k%50 == 49 {
					c.Run(c.Q.Now + 200*time.Millisecond)
				}
			}
			if last != nil {
				done = m.settle(last, 60*time.Second)
			}
		default:
			if f, ok := r.extra[op.Kind]; ok {
				f(op, idx)
				done = true
			}
		case "mem.restart":
			n := r.node(op.N)
			if n.Alive {
				c.Crash(n, false)
				r.fault("crash.step_boundary", c.Q.Now)
				if err := c.Restart(n); err != nil {
					c.Violate("C22", "restart-failed", err.Error(), n)
				}
				c.Run(c.Q.Now + time.Second)
				done = true
			}
		}
		if done {
			r.out.Probes["op_"+op.Kind]++
			if after != nil && !c.Halt {
				after(m, op.Kind)
			}
		}
	}
	return r, m, nil
}

func c10Exec(p *harness.Plan) *harness.Outcome {
	checks, ambiguous := 0, 0
	var soft []*harness.Violation
	seen := map[string]bool{}
	after := func(m *memRig, kind string) {
		c := m.c
		day := uint64(24 * time.Hour)
		epoch := uint64(c.Epoch.UnixNano())
		var stamps []uint64
		add := func(t uint64) { stamps = append(stamps, t-1, t, t+1) }
		for _, rec := range m.records {
			add(rec.ts)
			add(rec.ts + config.SnapshotReferenceThreshold*config.SnapshotRoundGap)
			add(rec.ts + uint64(config.KernelNodeAcceptPeriodMinimum))
			add(rec.ts + uint64(config.KernelNodeAcceptPeriodMinimum) - config.SnapshotReferenceThreshold*config.SnapshotRoundGap*3)
			d := (rec.ts - epoch) / day
			for _, dd := range []uint64{d, d + 1} {
				add(epoch + dd*day + uint64(config.KernelNodeAcceptTimeBegin)*uint64(time.Hour))
				add(epoch + dd*day + uint64(config.KernelNodeAcceptTimeEnd+1)*uint64(time.Hour))
			}
		}
		add(m.now())
		var chains []*memIdent
		for _, id := range m.idents {
			if id.state != "" {
				chains = append(chains, id)
			}
		}
		for i := 0; i < c.Cfg.Nodes; i++ {
			n := c.Nodes[i]
			if !n.Alive {
				continue
			}
			for _, ts := range stamps {
				T := n.Node.ConsensusThreshold(ts, true)
				for _, id := range chains {
					ch := n.Node.SimChain(id.id)
					if ch == nil {
						continue
					}
					for _, round := range []uint64{0, 1} {
						_, keys := ch.ConsensusKeys(round, ts)
						K := len(keys)
						checks++
						key := fmt.Sprintf("%d/%d/%v", T, K, round == 0 && ch.IsPledging())
						if seen[key] {
							continue
						}
						seen[key] = true
						if T >= 1000 {
							if T <= K {
								c.Violate("C10", "certificate-possible-below-minimum-membership", fmt.Sprintf("T=%d K=%d", T, K), n)
								return
							}
							continue
						}
						if K == 0 {
							ambiguous++
							continue
						}
						if T > K {
							continue // no certificate can exist at all
						}
						if 3*(2*T-K) <= K {
							sig := "quorum-intersection-at-most-a-third"
							if round == 0 && ch.IsPledging() {
								sig += ":round-zero-acceptance"
							} else {
								sig += fmt.Sprintf(":T%d-of-K%d", T, K)
							}
							soft = append(soft, &harness.Violation{Property: "C10", Signature: sig, Detail: fmt.Sprintf("n%d at ts %d chain %s round %d: threshold %d over %d keys; two certificates may share only %d signers (%d needed to exceed a third)", n.Idx, ts, id.id.String()[:8], round, T, K, 2*T-K, K/3+1)})
						}
					}
				}
			}
		}
	}
	r, m, bad := runMembership("C10", p, after, nil)
	if bad != nil {
		return bad
	}
	defer r.c.Close()
	r.out.Soft = soft
	r.out.Evals += checks
	r.out.Probes["threshold_queries"] += checks
	r.out.Probes["distinct_threshold_key_pairs"] += len(seen)
	r.out.Probes["membership_records"] += len(m.records)
	relabelPanic(r, "C10")
	return r.finish(len(m.records) > 0, map[string]any{"records": len(m.records), "pairs": len(seen), "accepted_now": len(m.accepted())})
}

func init() {
	harness.Register(&harness.Property{
		ID:    "C10",
		Level: "exploration",
		Rule: "seeded membership histories (7-9 real genesis nodes plus 3-7, thorough 5-24, key-only identities; 8-17, thorough 20-69, operations drawn from pledge / accept / remove / ordinary snapshot / restart, each valid operation preceded by a clock jump into its window) finalized through the real nodes; after every record every live node is queried at all record boundaries (t-1,t,t+1; +30 s; +12 h; 12 h - 90 s; window edges) for every member chain and rounds 0 and 1; the pair (threshold, key count) is judged by arithmetic; " +
			"non-trivial = at least one membership operation finalized; distinct = canonical-log digests",
		Components: clusterComponents,
		Assume:     append([]string{"membership sizes bounded by the rig (up to 9 real + 24 key-only identities)"}, clusterAssume...),
		Gen:        memGen("C10"),
		Exec:       c10Exec,
		QuickRuns:  64, ThoroughRuns: 2000,
		QuickWall: 30 * time.Second, ThoroughWall: 12 * time.Minute,
	})
}

var _ = cluster.AssetBTC
var _ = common.NodeStateAccepted
