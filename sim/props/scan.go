package props

import (
	"fmt"

	"verifsim/storerig"

	"github.com/MixinNetwork/mixin/common"
	"github.com/MixinNetwork/mixin/crypto"
	"github.com/MixinNetwork/mixin/storage"
)

// scanLedger checks the structural consistency of a durable database:
// every finalization record has its body, its snapshot and its outputs;
// topology positions and the reverse index are a bijection.
func scanLedger(store *storage.BadgerStore) (checked int, problem string) {
	kvs, err := store.SimDumpGraph("", true)
	if err != nil {
		return 0, "scan failed: " + err.Error()
	}
	by := map[string]map[string]string{}
	for _, kv := range kvs {
		p := storerig.PrefixOf(string(kv.Key))
		if by[p] == nil {
			by[p] = map[string]string{}
		}
		by[p][string(kv.Key[len(p):])] = string(kv.Value)
	}
	// TOPOLOGY <-> SNAPTOPO bijection
	topoBySnap := map[string]string{}
	for pos, snapKey := range by["TOPOLOGY"] {
		checked++
		if len(snapKey) < len("SNAPSHOT")+32 {
			return checked, "topology entry with malformed value"
		}
		raw, ok := by["SNAPSHOT"][snapKey[len("SNAPSHOT"):]]
		if !ok {
			return checked, fmt.Sprintf("topology position %x points to a missing snapshot", pos)
		}
		snap, err := common.UnmarshalVersionedSnapshot([]byte(raw))
		if err != nil {
			return checked, "stored snapshot does not decode: " + err.Error()
		}
		h := snap.PayloadHash()
		if prev, dup := topoBySnap[string(h[:])]; dup {
			return checked, fmt.Sprintf("snapshot %s has two topology positions %x %x", h, prev, pos)
		}
		topoBySnap[string(h[:])] = pos
		rev, ok := by["SNAPTOPO"][string(h[:])]
		if !ok {
			return checked, fmt.Sprintf("snapshot %s at position %x has no reverse index", h, pos)
		}
		if rev != "TOPOLOGY"+pos {
			return checked, fmt.Sprintf("reverse index of %s points elsewhere", h)
		}
	}
	for sh, topoKey := range by["SNAPTOPO"] {
		checked++
		if len(topoKey) < len("TOPOLOGY") {
			return checked, "malformed reverse index"
		}
		if _, ok := by["TOPOLOGY"][topoKey[len("TOPOLOGY"):]]; !ok {
			return checked, fmt.Sprintf("reverse index of %x points to a missing position", sh)
		}
	}
	if len(by["SNAPSHOT"]) != len(by["TOPOLOGY"]) {
		return checked, fmt.Sprintf("%d snapshots but %d topology positions", len(by["SNAPSHOT"]), len(by["TOPOLOGY"]))
	}
	// finalization records
	for txh, snapHash := range by["FINALIZATION"] {
		checked++
		raw, ok := by["TRANSACTION"][txh]
		if !ok {
			return checked, fmt.Sprintf("finalized transaction %x has no stored body", txh)
		}
		if _, ok := by["SNAPTOPO"][snapHash]; !ok {
			return checked, fmt.Sprintf("finalized transaction %x names snapshot %x which is not stored", txh, snapHash)
		}
		ver, err := common.UnmarshalVersionedTransaction([]byte(raw))
		if err != nil {
			return checked, "stored transaction does not decode: " + err.Error()
		}
		var h crypto.Hash
		copy(h[:], txh)
		if ver.PayloadHash() != h {
			return checked, fmt.Sprintf("stored body of %s hashes to %s", h, ver.PayloadHash())
		}
		for _, u := range ver.UnspentOutputs() {
			out, err := store.ReadUTXOLock(u.Hash, u.Index)
			if err != nil || out == nil {
				return checked, fmt.Sprintf("finalized transaction %s lacks output %d (%v)", h, u.Index, err)
			}
			if out.Amount.Cmp(u.Amount) != 0 || out.Asset != u.Asset {
				return checked, fmt.Sprintf("output %s:%d differs from its transaction", h, u.Index)
			}
		}
	}
	// every snapshot's transactions are finalized
	for _, raw := range by["SNAPSHOT"] {
		snap, _ := common.UnmarshalVersionedSnapshot([]byte(raw))
		for _, txh := range snap.Transactions {
			checked++
			if _, ok := by["FINALIZATION"][string(txh[:])]; !ok {
				return checked, fmt.Sprintf("snapshot %s holds transaction %s without finalization record", snap.PayloadHash(), txh)
			}
		}
	}
	return checked, ""
}
