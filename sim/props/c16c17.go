package props

import (
	"fmt"
	"math/big"
	"sort"
	"strings"
	"time"

	"verifsim/cluster"
	"verifsim/core"
	"verifsim/harness"

	"github.com/MixinNetwork/mixin/common"
	"github.com/MixinNetwork/mixin/config"
	"github.com/MixinNetwork/mixin/crypto"
)

// C16 — transactions that validate together can always be finalized.
// C17 — asset supply equals the value held in unconsumed outputs.
//
// R1: real consensus over ledgers with deposits of capped assets (amounts
// near the capacity, several pending deposits of one asset submitted to the
// same node — batched into one snapshot — or to different nodes — concurrent
// proposals), transfers, withdrawal submissions, double spends, under
// network faults and crash/restart.
// C16 oracle: tripwire on any error or panic of the finalization write for a
// snapshot whose members all passed the node's own validation, classified by
// what made it unfinalizable.
// C17 oracle: after every finalization the recorded total of every touched
// asset equals the model (deposits + mints - withdrawal submissions, per
// node), stays within [0, capacity]; at checkpoints, after restarts and at
// the end the total also equals the sum of outputs not consumed by a
// finalized transaction (full scan of the output records).

type ledgerMon struct {
	cluster.BaseMonitor
	r      *crun
	prop   string
	final  map[int]map[crypto.Hash]bool     // node -> finalized transactions
	totals map[int]map[crypto.Hash]*big.Int // node -> asset -> model total (units)
	writes int
	scans  int
	batch  map[int]string // node -> classification of the snapshot being written
}

func newLedgerMon(r *crun, prop string) *ledgerMon {
	return &ledgerMon{r: r, prop: prop, final: map[int]map[crypto.Hash]bool{}, totals: map[int]map[crypto.Hash]*big.Int{}, batch: map[int]string{}}
}

func capacityUnits(asset crypto.Hash) *big.Int { return units(common.GetAssetCapacity(asset)) }

func (m *ledgerMon) node(n *cluster.SNode) (map[crypto.Hash]bool, map[crypto.Hash]*big.Int) {
	if m.final[n.Idx] == nil {
		m.final[n.Idx] = map[crypto.Hash]bool{}
		m.totals[n.Idx] = map[crypto.Hash]*big.Int{}
		// genesis allocations: what the genesis definition hands out (not what the store recorded)
		alloc := new(big.Int)
		if _, _, txs, err := m.r.c.Gns.BuildSnapshots(); err == nil {
			for _, tx := range txs {
				for _, o := range tx.Outputs {
					alloc.Add(alloc, units(o.Amount))
				}
			}
		}
		m.totals[n.Idx][common.XINAssetId] = alloc
	}
	return m.final[n.Idx], m.totals[n.Idx]
}

func (m *ledgerMon) BeforeStore(n *cluster.SNode, call *cluster.StoreCall) {
	if call.Name != "WriteSnapshot" {
		return
	}
	final, _ := m.node(n)
	snap := snapArg(call)
	// classify what could make this validated batch unfinalizable
	sum := map[crypto.Hash]*big.Int{}
	single := false
	infos := map[crypto.Hash]string{}
	clash := false
	for _, h := range snap.Transactions {
		if final[h] {
			continue
		}
		tx, _, err := n.Store.ReadTransaction(h)
		if err != nil || tx == nil {
			continue
		}
		if d := tx.DepositData(); d != nil {
			if sum[tx.Asset] == nil {
				sum[tx.Asset] = new(big.Int)
			}
			sum[tx.Asset].Add(sum[tx.Asset], units(d.Amount))
			if units(d.Amount).Cmp(capacityUnits(tx.Asset)) > 0 {
				single = true
			}
			info := d.Chain.String() + "|" + d.AssetKey
			if old, _, _ := n.Store.ReadAssetWithBalance(tx.Asset); old != nil {
				if old.Chain.String()+"|"+old.AssetKey != info {
					clash = true
				}
			}
			if prev, ok := infos[tx.Asset]; ok && prev != info {
				clash = true
			}
			infos[tx.Asset] = info
		}
	}
	class := ""
	for asset, s := range sum {
		_, bal, _ := n.Store.ReadAssetWithBalance(asset)
		if new(big.Int).Add(units(bal), s).Cmp(capacityUnits(asset)) > 0 {
			class = "deposit-capacity:cumulative-pending-deposits"
			if single {
				class = "deposit-capacity:single-deposit-of-unrecorded-asset"
			}
		}
	}
	if clash {
		class = "asset-info-clash-between-pending-deposits"
	}
	m.batch[n.Idx] = class
}

func (m *ledgerMon) AfterStore(n *cluster.SNode, call *cluster.StoreCall) {
	if call.Name != "WriteSnapshot" {
		return
	}
	c := m.r.c
	snap := snapArg(call)
	if call.Err != nil {
		if _, injected := call.Err.(interface{ Error() string }); injected && strings.Contains(call.Err.Error(), "injected") {
			return
		}
		sig := "finalization-write-failed"
		if cl := m.batch[n.Idx]; cl != "" {
			sig += ":" + cl
		}
		c.Violate("C16", sig, fmt.Sprintf("n%d: WriteSnapshot of %s (%d transactions, all validated) failed: %v", n.Idx, snap.PayloadHash().String()[:8], len(snap.Transactions), call.Err), n)
		return
	}
	m.writes++
	final, totals := m.node(n)
	touched := map[crypto.Hash]bool{}
	for _, h := range snap.Transactions {
		if final[h] {
			continue
		}
		final[h] = true
		tx, _, err := n.Store.ReadTransaction(h)
		if err != nil || tx == nil {
			continue
		}
		if totals[tx.Asset] == nil {
			totals[tx.Asset] = new(big.Int)
		}
		switch {
		case tx.DepositData() != nil:
			totals[tx.Asset].Add(totals[tx.Asset], units(tx.DepositData().Amount))
			touched[tx.Asset] = true
		case tx.Inputs[0].Mint != nil:
			totals[tx.Asset].Add(totals[tx.Asset], units(tx.Inputs[0].Mint.Amount))
			touched[tx.Asset] = true
		default:
			for _, o := range tx.Outputs {
				if o.Type == common.OutputTypeWithdrawalClaim {
					m.r.out.Probes["withdrawal_claim_finalized"]++
				}
				if o.Type == common.OutputTypeWithdrawalSubmit {
					totals[tx.Asset].Sub(totals[tx.Asset], units(o.Amount))
					touched[tx.Asset] = true
					m.r.out.Probes["withdrawal_finalized"]++
				}
			}
		}
	}
	if m.prop != "C17" {
		return
	}
	for asset := range touched {
		_, bal, err := n.Store.ReadAssetWithBalance(asset)
		m.r.out.Evals++
		if err != nil || units(bal).Cmp(totals[asset]) != 0 {
			c.Violate("C17", "recorded-total-differs-from-history", fmt.Sprintf("n%d asset %s: recorded total %s, history gives %s units (%v)", n.Idx, asset.String()[:8], bal, totals[asset], err), n)
			return
		}
		if totals[asset].Sign() < 0 || totals[asset].Cmp(capacityUnits(asset)) > 0 {
			c.Violate("C17", "total-out-of-range", fmt.Sprintf("n%d asset %s total %s", n.Idx, asset.String()[:8], totals[asset]), n)
			return
		}
	}
}

func (m *ledgerMon) OnPanic(n *cluster.SNode, kind string, val any, stack string) bool {
	if !strings.Contains(stack, "storage.writeTotalInAsset") && !strings.Contains(stack, "kernel.(*Node).TopoWrite") {
		return false
	}
	sig := "finalization-write-panicked"
	if cl := m.batch[n.Idx]; cl != "" {
		sig += ":" + cl
	}
	m.r.c.Violate("C16", sig, fmt.Sprintf("n%d: finalizing a snapshot whose members all validated panicked: %v", n.Idx, val), n)
	return true
}

// scan compares every asset total with the sum of unconsumed outputs.
func (m *ledgerMon) scan(n *cluster.SNode) {
	if m.prop != "C17" || !n.Alive {
		return
	}
	c := m.r.c
	kvs, err := n.Store.SimDumpGraph("UTXO", true)
	if err != nil {
		return
	}
	m.scans++
	sum := map[crypto.Hash]*big.Int{}
	for _, kv := range kvs {
		u, err := common.UnmarshalUTXO(kv.Value)
		if err != nil {
			c.Violate("C17", "output-record-unreadable", err.Error(), n)
			return
		}
		if u.LockHash.HasValue() {
			if _, fin, _ := n.Store.ReadTransaction(u.LockHash); fin != "" {
				continue // consumed by a finalized transaction
			}
		}
		if sum[u.Asset] == nil {
			sum[u.Asset] = new(big.Int)
		}
		sum[u.Asset].Add(sum[u.Asset], units(u.Amount))
	}
	_, totals := m.node(n)
	for asset, s := range sum {
		_, bal, _ := n.Store.ReadAssetWithBalance(asset)
		m.r.out.Evals++
		if units(bal).Cmp(s) != 0 {
			c.Violate("C17", "total-differs-from-unconsumed-outputs", fmt.Sprintf("n%d asset %s: recorded total %s, unconsumed outputs sum to %s units", n.Idx, asset.String()[:8], bal, s), n)
			return
		}
		if t := totals[asset]; t != nil && t.Cmp(s) != 0 {
			c.Violate("C17", "history-differs-from-unconsumed-outputs", fmt.Sprintf("n%d asset %s: history %s, outputs %s", n.Idx, asset.String()[:8], t, s), n)
			return
		}
	}
}

func (m *ledgerMon) OnRestart(n *cluster.SNode) { m.scan(n) }

func ledgerGen(prop string) func(rng *core.Rng, tier string) *harness.Plan {
	return func(rng *core.Rng, tier string) *harness.Plan {
		if prop == "C17" && rng.Chance(0.25) {
			p := &harness.Plan{Seed: rng.Uint64()}
			c17MemGen(rng, tier, p) // consensus operations and mint on the membership rig, see c17mem.go
			return p
		}
		p := &harness.Plan{Seed: rng.Uint64(), Params: map[string]int64{}}
		baseClusterParams(rng, p)
		dur := time.Duration(45+rng.IntN(25)) * time.Second
		if tier == "thorough" {
			dur = time.Duration(70+rng.IntN(90)) * time.Second
		}
		p.Params["dur_ms"] = int64(dur / time.Millisecond)
		if prop == "C17" && rng.Chance(0.25) {
			// the first start (genesis allocations are written then) of one node is cut and repeated
			p.Params["nodes"] = int64(8 + rng.IntN(2))
			p.Params["bootstop_k"] = int64(1 + rng.IntN(3))
			p.Params["bootstop_node"] = int64(rng.IntN(9))
		}
		honestWorkload(rng, p, time.Second, dur, 8+rng.IntN(10), 5+rng.IntN(10))
		for i := 0; i < 2+rng.IntN(4); i++ {
			p.Ops = append(p.Ops, harness.Op{At: int64(rng.Dur(15*time.Second, dur) / time.Microsecond), Kind: "withdraw", S: fmt.Sprint("w", i), N: rng.IntN(9), A: int64(rng.IntN(1000))})
		}
		if prop == "C17" {
			// custodian-signed claims of finalized withdrawal submissions (their fee output is never spendable
			// and stays part of the supply)
			for i := 0; i < 1+rng.IntN(3); i++ {
				p.Ops = append(p.Ops, harness.Op{At: int64(rng.Dur(25*time.Second, dur) / time.Microsecond), Kind: "claim", S: fmt.Sprint("cl", i), N: rng.IntN(9), A: int64(rng.IntN(1000)), B: int64(rng.IntN(1000))})
			}
		}
		for i := 0; i < rng.IntN(3); i++ {
			p.Ops = append(p.Ops, harness.Op{At: int64(rng.Dur(15*time.Second, dur) / time.Microsecond), Kind: "doublespend", S: fmt.Sprint("x", i), N: rng.IntN(9), M: rng.IntN(9), A: int64(rng.IntN(1000))})
			if prop == "C16" && rng.Chance(0.7) {
				p.Ops = append(p.Ops, harness.Op{At: int64(rng.Dur(15*time.Second, dur) / time.Microsecond), Kind: "keyclash", S: fmt.Sprint("k", i), N: rng.IntN(9), M: rng.IntN(9), A: int64(rng.IntN(1000)), B: int64(rng.IntN(4000))})
			}
		}
		if prop == "C16" && rng.Chance(0.15) {
			// an asset that was deposited and then withdrawn completely (recorded total exactly zero), then a
			// deposit above its capacity; nothing else touches that asset in this run
			p.Params["emptied_asset"] = 1
			for i := range p.Ops {
				if p.Ops[i].Kind == "deposit" {
					p.Ops[i].A = 2 + p.Ops[i].A%2
				}
			}
			at := rng.Dur(3*time.Second, 8*time.Second)
			for step := int64(0); step < 3; step++ {
				p.Ops = append(p.Ops, harness.Op{At: int64(at / time.Microsecond), Kind: "emptyasset", S: fmt.Sprint("e", step), N: rng.IntN(9), A: step, B: int64(rng.IntN(2))})
				at += rng.Dur(6*time.Second, 9*time.Second)
			}
		} else if prop == "C16" {
			// capped-asset scenarios (BTC capacity 2500, ETH 5000)
			k := 1 + rng.IntN(3)
			for i := 0; i < k; i++ {
				at := int64(rng.Dur(3*time.Second, dur-5*time.Second) / time.Microsecond)
				mode := rng.IntN(4)
				same := rng.IntN(9)
				p.Ops = append(p.Ops, harness.Op{At: at, Kind: "capdeposit", S: fmt.Sprint("c", i, "a"), N: same, A: int64(mode), B: int64(rng.IntN(2)), C: 0})
				n2 := same
				if rng.Chance(0.5) {
					n2 = rng.IntN(9)
				}
				p.Ops = append(p.Ops, harness.Op{At: at + int64(rng.Dur(0, 400*time.Millisecond)/time.Microsecond), Kind: "capdeposit", S: fmt.Sprint("c", i, "b"), N: n2, A: int64(mode), B: int64(rng.IntN(2)), C: 1})
			}
		}
		networkFaults(rng, p, 5*time.Second, dur, rng.IntN(3))
		for i := 0; i < rng.IntN(3); i++ {
			p.Ops = append(p.Ops, harness.Op{At: int64(rng.Dur(8*time.Second, dur) / time.Microsecond), Kind: "crash", N: rng.IntN(9), A: int64(300 + rng.IntN(4000))})
		}
		for i := 0; i < 2; i++ {
			p.Ops = append(p.Ops, harness.Op{At: int64(rng.Dur(15*time.Second, dur) / time.Microsecond), Kind: "checkpoint"})
		}
		sortOps(p)
		return p
	}
}

func ledgerExec(prop string) func(p *harness.Plan) *harness.Outcome {
	return func(p *harness.Plan) *harness.Outcome {
		if prop == "C17" && p.P("mem", 0) == 1 {
			return c17MemExec(p)
		}
		r, err := newClusterRun(prop, p)
		if err != nil {
			o := harness.NewOutcome()
			o.ToolError = err.Error()
			return o
		}
		defer r.c.Close()
		c := r.c
		mon := newLedgerMon(r, prop)
		c.AddMonitor(mon)
		if err := c.Boot(); err != nil {
			r.out.ToolError = err.Error()
			return r.out
		}
		r.extra["checkpoint"] = func(harness.Op, int) {
			for _, n := range c.AliveNodes() {
				if c.Halt {
					return
				}
				mon.scan(n)
			}
		}
		r.extra["withdraw"] = func(op harness.Op, idx int) {
			src := r.pickCoin(int(op.A))
			if src == nil || !c.FinalizedEverywhere(src.Tx) {
				return
			}
			src.Spent = true
			tx := common.NewTransactionV5(src.Asset)
			tx.AddInput(src.Tx, src.Index)
			half := src.Amount.Div(2)
			if half.Sign() == 0 {
				return
			}
			tx.Outputs = append(tx.Outputs, &common.Output{Type: common.OutputTypeWithdrawalSubmit, Amount: half, Withdrawal: &common.WithdrawalData{Address: "w-" + op.S, Tag: ""}})
			sh := crypto.Blake3Hash([]byte("withdraw-change" + op.S))
			accounts := make([]*common.Address, len(src.Owners))
			for i, u := range src.Owners {
				accounts[i] = c.User(u)
			}
			tx.AddScriptOutput(accounts, common.NewThresholdScript(src.Threshold), src.Amount.Sub(half), append(sh[:], sh[:]...))
			signed := &common.SignedTransaction{Transaction: *tx}
			var signers []*common.Address
			for _, u := range src.Owners[:int(src.Threshold)] {
				signers = append(signers, c.User(u))
			}
			if err := signed.SignUTXO(src.UTXO, signers); err != nil {
				return
			}
			ver := signed.AsVersioned()
			r.txOf[idx] = ver
			r.coins[idx] = []*cluster.Coin{c.CoinOf(ver, 1, src.Owners, src.Threshold)}
			r.submit(r.node(op.N), ver, true)
			r.out.Probes["withdrawal_submitted"]++
		}
		r.extra["claim"] = func(op harness.Op, idx int) {
			// a finalized submission
			var subs []crypto.Hash
			ks := make([]int, 0, len(r.txOf))
			for k := range r.txOf {
				ks = append(ks, k)
			}
			sort.Ints(ks)
			for _, k := range ks {
				tx := r.txOf[k]
				if len(tx.Outputs) > 0 && tx.Outputs[0].Type == common.OutputTypeWithdrawalSubmit && c.FinalizedEverywhere(tx.PayloadHash()) {
					subs = append(subs, tx.PayloadHash())
				}
			}
			// a XIN output to pay the fee from
			var src *cluster.Coin
			fee := common.NewIntegerFromString(config.WithdrawalClaimFee)
			cks := make([]int, 0, len(r.coins))
			for k := range r.coins {
				cks = append(cks, k)
			}
			sort.Ints(cks)
			var cands []*cluster.Coin
			for _, k := range cks {
				for _, coin := range r.coins[k] {
					if !coin.Spent && len(coin.Owners) > 0 && coin.Asset == common.XINAssetId && coin.Amount.Cmp(fee) > 0 && c.FinalizedEverywhere(coin.Tx) {
						cands = append(cands, coin)
					}
				}
			}
			if len(subs) == 0 || len(cands) == 0 {
				r.out.Probes["claim_not_possible_yet"]++
				return
			}
			src = cands[int(op.A)%len(cands)]
			src.Spent = true
			tx := common.NewTransactionV5(common.XINAssetId)
			tx.AddInput(src.Tx, src.Index)
			tx.Outputs = append(tx.Outputs, &common.Output{Type: common.OutputTypeWithdrawalClaim, Amount: fee})
			sh := crypto.Blake3Hash([]byte("claim-change" + op.S))
			accounts := make([]*common.Address, len(src.Owners))
			for i, u := range src.Owners {
				accounts[i] = c.User(u)
			}
			tx.AddScriptOutput(accounts, common.NewThresholdScript(src.Threshold), src.Amount.Sub(fee), append(sh[:], sh[:]...))
			tx.References = []crypto.Hash{subs[int(op.B)%len(subs)]}
			data := []byte("external-transaction-of-" + op.S)
			sig := c.Domain.PrivateSpendKey.Sign(crypto.Blake3Hash(data))
			tx.Extra = append(sig[:], data...)
			signed := &common.SignedTransaction{Transaction: *tx}
			var signers []*common.Address
			for _, u := range src.Owners[:int(src.Threshold)] {
				signers = append(signers, c.User(u))
			}
			if err := signed.SignUTXO(src.UTXO, signers); err != nil {
				return
			}
			ver := signed.AsVersioned()
			r.txOf[idx] = ver
			r.coins[idx] = []*cluster.Coin{c.CoinOf(ver, 1, src.Owners, src.Threshold)}
			r.submit(r.node(op.N), ver, true)
			r.out.Probes["withdrawal_claim_submitted"]++
		}
		r.extra["capdeposit"] = func(op harness.Op, idx int) {
			asset := cluster.AssetBTC
			capacity := 2500
			if op.B == 1 {
				asset, capacity = cluster.AssetETH, 5000
			}
			var amount string
			switch op.A {
			case 0: // two deposits that fit together
				amount = fmt.Sprint(capacity/2 - 10)
			case 1: // each fits, together they exceed the capacity
				amount = fmt.Sprint(capacity/2 + 100 + int(op.C))
			case 2: // a single deposit above the capacity of a (possibly) unrecorded asset
				amount = fmt.Sprint(capacity + 500)
				if op.C == 1 {
					amount = "1"
				}
			default: // the same asset announced with different chain information
				amount = "2"
				if op.C == 1 {
					asset = cluster.AssetSpec{Id: asset.Id, Chain: common.SOLAssetId, AssetKey: "other-key"}
				}
			}
			tx, coin := c.MakeDeposit(asset, common.NewIntegerFromString(amount), "cap-"+op.S, 0, []int{0}, 1)
			r.coins[idx] = []*cluster.Coin{coin}
			r.txOf[idx] = tx
			r.submit(r.node(op.N), tx, false)
			r.out.Faults[fmt.Sprintf("workload.capdeposit.mode%d", op.A)]++
		}
		var emptied *cluster.Coin
		r.extra["emptyasset"] = func(op harness.Op, idx int) {
			asset, capacity := cluster.AssetETH, 5000
			switch op.A {
			case 0:
				tx, coin := c.MakeDeposit(asset, common.NewIntegerFromString("100"), "empty-"+op.S, 0, []int{0}, 1)
				r.coins[idx] = []*cluster.Coin{coin}
				r.txOf[idx] = tx
				emptied = coin
				r.submit(r.node(op.N), tx, true)
			case 1:
				if emptied == nil || emptied.Spent || !c.FinalizedEverywhere(emptied.Tx) {
					r.out.Probes["emptied_asset_scenario_abandoned"]++
					emptied = nil
					return
				}
				emptied.Spent = true
				tx := common.NewTransactionV5(emptied.Asset)
				tx.AddInput(emptied.Tx, emptied.Index)
				tx.Outputs = append(tx.Outputs, &common.Output{Type: common.OutputTypeWithdrawalSubmit, Amount: emptied.Amount, Withdrawal: &common.WithdrawalData{Address: "w-" + op.S, Tag: ""}})
				signed := &common.SignedTransaction{Transaction: *tx}
				if err := signed.SignUTXO(emptied.UTXO, []*common.Address{c.User(0)}); err != nil {
					emptied = nil
					return
				}
				ver := signed.AsVersioned()
				r.txOf[idx] = ver
				r.submit(r.node(op.N), ver, true)
				r.out.Probes["asset_withdrawn_completely"]++
			default:
				if emptied == nil || r.txOf[idx-1] == nil || !c.FinalizedEverywhere(r.txOf[idx-1].PayloadHash()) {
					for j := idx - 1; j >= 0; j-- {
						if r.plan.Ops[j].Kind == "emptyasset" && r.plan.Ops[j].A == 1 && r.txOf[j] != nil && c.FinalizedEverywhere(r.txOf[j].PayloadHash()) {
							goto ready
						}
					}
					r.out.Probes["emptied_asset_scenario_abandoned"]++
					return
				}
			ready:
				tx, _ := c.MakeDeposit(asset, common.NewIntegerFromString(fmt.Sprint(capacity+500-int(op.B)*499)), "over-"+op.S, 0, []int{0}, 1)
				r.txOf[idx] = tx
				r.submit(r.node(op.N), tx, false)
				r.out.Faults["workload.deposit_above_capacity_into_emptied_asset"]++
			}
		}
		r.schedule()
		c.Run(time.Duration(p.P("dur_ms", 40000)) * time.Millisecond)
		fin, total := 0, 0
		if !c.Halt {
			fin, total = r.settle(90*time.Second, true)
		}
		if !c.Halt {
			for _, n := range c.AliveNodes() {
				mon.scan(n)
			}
		}
		r.out.Evals += mon.writes
		r.out.Probes["finalization_writes"] += mon.writes
		r.out.Probes["output_scans"] += mon.scans
		r.out.Probes["accepted_finalized"] += fin
		r.out.Probes["accepted_total"] += total
		relabelPanic(r, prop)
		return r.finish(mon.writes > 0 && fin > 0, map[string]any{"writes": mon.writes, "scans": mon.scans, "finalized": fin, "accepted": total})
	}
}

func init() {
	harness.Register(&harness.Property{
		ID:    "C16",
		Level: "exploration",
		Rule: "seeded cluster runs with deposits, transfers, withdrawal submissions and double spends plus 1-3 capped-asset scenarios per run (two deposits of BTC/ETH that fit together; that each fit but together exceed the capacity; a single deposit above the capacity of a possibly unrecorded asset; the same asset announced with different chain information; in 15% of the runs instead an asset that is deposited, withdrawn completely and then offered a deposit above its capacity), submitted to the same node (one batch) or to different nodes (concurrent proposals), under network faults and crash/restart; tripwire on every finalization write of a validated batch; " +
			"non-trivial = at least one finalization write and one accepted transaction finalized; distinct = canonical-log digests",
		Components: clusterComponents,
		Assume:     clusterAssume,
		Gen:        ledgerGen("C16"),
		Exec:       ledgerExec("C16"),
		QuickRuns:  64, ThoroughRuns: 3000,
		QuickWall: 45 * time.Second, ThoroughWall: 12 * time.Minute,
	})
	harness.Register(&harness.Property{
		ID:    "C17",
		Level: "exploration",
		Rule: "seeded cluster runs over 4 assets with deposits, transfers, withdrawal submissions, double spends, network faults and crash/restart; after every finalization on every node the recorded totals of the touched assets are compared with the node's own finalized history and the capacity; at two checkpoints, after each restart and at the end every output record is scanned and the unconsumed value per asset compared with the recorded total; " +
			"deposits are handed to up to three nodes at once in part of the cases; 25% of the runs are membership-rig histories with pledges funded by XIN deposits, acceptances, removals, custodian updates and one to two universal mints, scanned on every node after every operation; " +
			"non-trivial = at least one finalization and one accepted transaction finalized everywhere; distinct = canonical-log digests. Mint and node operations need day-long horizons and are not part of these runs.",
		Components: clusterComponents,
		Assume:     clusterAssume,
		Gen:        ledgerGen("C17"),
		Exec:       ledgerExec("C17"),
		QuickRuns:  64, ThoroughRuns: 3000,
		QuickWall: 45 * time.Second, ThoroughWall: 12 * time.Minute,
	})
}
