package cluster

import (
	"fmt"

	"github.com/MixinNetwork/mixin/common"
	"github.com/MixinNetwork/mixin/crypto"
)

// Coin is an output the simulated clients know how to spend.
type Coin struct {
	Tx        crypto.Hash
	Index     uint
	Asset     crypto.Hash
	Amount    common.Integer
	Owners    []int // indexes into Cluster.Users
	Threshold uint8
	UTXO      *common.UTXO
	Spent     bool // a spend has been submitted
}

// AssetSpec describes a depositable asset.
type AssetSpec struct {
	Id       crypto.Hash
	Chain    crypto.Hash
	AssetKey string
}

var (
	AssetBTC = AssetSpec{Id: common.BitcoinAssetId, Chain: common.BitcoinAssetId, AssetKey: "c6d0c728-2624-429b-8e0d-d9d19b6592fa"}
	AssetETH = AssetSpec{Id: common.EthereumAssetId, Chain: common.EthereumAssetId, AssetKey: "0x0000000000000000000000000000000000000000"}
	AssetXIN = AssetSpec{Id: common.XINAssetId, Chain: common.XINAsset.Chain, AssetKey: common.XINAsset.AssetKey}
	AssetSOL = AssetSpec{Id: common.SOLAssetId, Chain: common.SOLAssetId, AssetKey: "11111111111111111111111111111111"}
)

// User returns the i-th simulated client account (deterministic).
func (c *Cluster) User(i int) *common.Address {
	for len(c.users) <= i {
		a := deterministicAccount(11, len(c.users), "USER")
		c.users = append(c.users, &a)
	}
	return c.users[i]
}

// MakeDeposit builds a custodian-signed deposit crediting `owners`.
func (c *Cluster) MakeDeposit(asset AssetSpec, amount common.Integer, extTx string, extIndex uint64, owners []int, threshold uint8) (*common.VersionedTransaction, *Coin) {
	tx := common.NewTransactionV5(asset.Id)
	tx.AddDepositInput(&common.DepositData{
		Chain:       asset.Chain,
		AssetKey:    asset.AssetKey,
		Transaction: extTx,
		Index:       extIndex,
		Amount:      amount,
	})
	seedHash := crypto.Blake3Hash([]byte(fmt.Sprintf("DEPOSIT%s%s%d", asset.Id, extTx, extIndex)))
	seed := append(seedHash[:], seedHash[:]...)
	accounts := make([]*common.Address, len(owners))
	for i, o := range owners {
		accounts[i] = c.User(o)
	}
	tx.AddScriptOutput(accounts, common.NewThresholdScript(threshold), amount, seed)
	signed := &common.SignedTransaction{Transaction: *tx}
	if err := signed.SignRaw(c.Domain.PrivateSpendKey); err != nil {
		panic(err)
	}
	ver := signed.AsVersioned()
	return ver, c.coinOf(ver, 0, owners, threshold)
}

// CoinOf exposes output `index` of a transaction as a spendable coin.
func (c *Cluster) CoinOf(ver *common.VersionedTransaction, index int, owners []int, threshold uint8) *Coin {
	return c.coinOf(ver, index, owners, threshold)
}

func (c *Cluster) coinOf(ver *common.VersionedTransaction, index int, owners []int, threshold uint8) *Coin {
	out := ver.Outputs[index]
	return &Coin{
		Tx:        ver.PayloadHash(),
		Index:     uint(index),
		Asset:     ver.Asset,
		Amount:    out.Amount,
		Owners:    owners,
		Threshold: threshold,
		UTXO: &common.UTXO{
			Input:  common.Input{Hash: ver.PayloadHash(), Index: uint(index)},
			Output: common.Output{Type: out.Type, Amount: out.Amount, Keys: out.Keys, Script: out.Script, Mask: out.Mask},
			Asset:  ver.Asset,
		},
	}
}

// OutSpec is one requested output of a transfer.
type OutSpec struct {
	Owners    []int
	Threshold uint8
	Amount    common.Integer
}

// MakeTransfer builds a transfer spending `coins` signed by the first
// `threshold` owners of each coin (per-input signature maps).
func (c *Cluster) MakeTransfer(coins []*Coin, outs []OutSpec, extra []byte, nonce string) (*common.VersionedTransaction, []*Coin) {
	tx := common.NewTransactionV5(coins[0].Asset)
	for _, coin := range coins {
		tx.AddInput(coin.Tx, coin.Index)
	}
	for i, o := range outs {
		sh := crypto.Blake3Hash([]byte(fmt.Sprintf("TRANSFER%s%d%s%d", coins[0].Tx, coins[0].Index, nonce, i)))
		seed := append(sh[:], sh[:]...)
		accounts := make([]*common.Address, len(o.Owners))
		for j, u := range o.Owners {
			accounts[j] = c.User(u)
		}
		tx.AddScriptOutput(accounts, common.NewThresholdScript(o.Threshold), o.Amount, seed)
	}
	tx.Extra = extra
	signed := &common.SignedTransaction{Transaction: *tx}
	for _, coin := range coins {
		k := int(coin.Threshold)
		if k == 0 {
			k = 1
		}
		if k > len(coin.Owners) {
			k = len(coin.Owners)
		}
		accounts := make([]*common.Address, 0, k)
		for _, u := range coin.Owners[:k] {
			accounts = append(accounts, c.User(u))
		}
		if err := signed.SignUTXO(coin.UTXO, accounts); err != nil {
			panic(err)
		}
	}
	ver := signed.AsVersioned()
	var produced []*Coin
	for i, o := range outs {
		produced = append(produced, c.coinOf(ver, i, o.Owners, o.Threshold))
	}
	return ver, produced
}

// FinalizedOn reports whether node n has the transaction finalized.
func (c *Cluster) FinalizedOn(n *SNode, h crypto.Hash) bool {
	if !n.Alive {
		return false
	}
	_, snap, err := n.Store.ReadTransaction(h)
	return err == nil && snap != ""
}

func (c *Cluster) FinalizedEverywhere(h crypto.Hash) bool {
	for i := 0; i < c.Cfg.Nodes; i++ {
		if !c.FinalizedOn(c.Nodes[i], h) {
			return false
		}
	}
	return true
}
