package props

import (
	"fmt"
	"time"

	"verifsim/cluster"
	"verifsim/core"
	"verifsim/harness"

	"github.com/MixinNetwork/mixin/common"
	"github.com/MixinNetwork/mixin/config"
	"github.com/MixinNetwork/mixin/crypto"
)

// C20, finalized path (finalization injection). The cluster part of C20 only
// reaches the references a Byzantine *proposer* can put into announcements
// (the strict path). A syncing node applies round transitions from finalized
// snapshots instead, where the references are taken from the certified
// snapshot. Here the simulator, which holds every key, manufactures a valid
// multi-chain history and, in between, validly certified snapshots whose
// references break the rule:
//
//	stale-external   opens round N+1 with an external reference to a known final round below the stored link
//	own-chain        external reference to the chain's own previous round
//	self-mismatch    commits to a hash that is not the previous final round
//	self-mismatch-and-unknown-external  the same, and the external round is one the victim has not seen yet
//	empty-head-stale the head round was opened empty (its certified external round is not known to the
//	                 victim yet) and a second certified snapshot of that round names a stale external round
//
// Each variant goes to one victim node, which is restarted afterwards (a
// refused round opener stays in the node's pool). The same monitor as in the
// cluster part judges every StartNewRound / UpdateEmptyHeadRound and the
// durable/in-memory link fingerprint after every step; in addition no variant
// may be stored anywhere and the valid history must converge on every node.

// placeRefs builds a validly certified snapshot with caller-chosen references.
func (inj *injector) placeRefs(ch *injChain, round, ts uint64, refs *common.RoundLink) *injected {
	inj.seq++
	tx, _ := inj.c.MakeDeposit(cluster.AssetBTC, common.NewIntegerFromString("0.5"), fmt.Sprintf("inj-%d", inj.seq), 0, []int{0}, 1)
	s := &common.Snapshot{
		Version:     common.SnapshotVersionCommonEncoding,
		NodeId:      ch.id,
		RoundNumber: round,
		References:  refs.Copy(),
		Timestamp:   ts,
	}
	s.AddTransaction(tx.PayloadHash())
	s.Hash = s.PayloadHash()
	k := inj.threshold() + inj.rng.IntN(inj.n-inj.threshold()+1)
	pos := inj.signersFor(ch.id, k)
	s.Signature = &crypto.CosiSignature{Signature: inj.sign(pos, s.Hash, -1), Mask: maskOf(pos)}
	return &injected{snap: s, tx: tx, chain: ch, applied: map[int]bool{}}
}

func c20InjectGen(rng *core.Rng, tier string, p *harness.Plan) {
	p.Params = map[string]int64{"inject_refs": 1, "nodes": 7, "start_s": int64(3600 + rng.IntN(60000)), "maxlat_ms": int64(5 + rng.IntN(60))}
	if rng.Chance(0.4) {
		p.Params["dup_ppm"] = int64(rng.IntN(150000))
	}
	if rng.Chance(0.4) {
		p.Params["reorder_ppm"] = int64(rng.IntN(200000))
	}
	hist := 18 + rng.IntN(10)
	variants := 4 + rng.IntN(3)
	if tier == "thorough" {
		hist, variants = 20+rng.IntN(30), 5+rng.IntN(8)
	}
	// the history concentrates on a few chains so that they advance several rounds and link above zero
	chains := 3 + rng.IntN(2)
	at := int64(2 * time.Second / time.Microsecond)
	for i := 0; i < hist; i++ {
		at += int64(rng.Dur(200*time.Millisecond, 700*time.Millisecond) / time.Microsecond)
		nr := int64(0)
		if rng.Chance(0.6) {
			nr = 1
		}
		p.Ops = append(p.Ops, harness.Op{At: at, Kind: "hist", N: rng.IntN(chains), A: nr, C: int64(rng.Uint64() >> 1), S: fmt.Sprint("h", i)})
	}
	if rng.Chance(0.5) {
		// a failing disk under the round-transition writes while the valid history arrives
		for i := 0; i < 1+rng.IntN(3); i++ {
			p.Ops = append(p.Ops, harness.Op{At: int64(2*time.Second/time.Microsecond) + rng.Int64N(at-int64(2*time.Second/time.Microsecond)+1), Kind: "failround", N: rng.IntN(7), A: int64(rng.IntN(2)), B: int64(rng.IntN(3) / 2)})
		}
	}
	for i := 0; i < variants; i++ {
		at += int64(rng.Dur(500*time.Millisecond, 1200*time.Millisecond) / time.Microsecond)
		kind := "badref"
		if rng.Chance(0.35) {
			kind = "emptyhead"
		}
		p.Ops = append(p.Ops, harness.Op{At: at, Kind: kind, N: rng.IntN(chains), M: rng.IntN(7), A: int64([]int{0, 0, 1, 2, 3, 3}[rng.IntN(6)]), B: int64(rng.IntN(chains)), C: int64(rng.Uint64() >> 1), S: fmt.Sprint("v", i)})
		at += int64(6 * time.Second / time.Microsecond) // the victim is restarted inside this window
		for k := 0; k < 2; k++ {
			at += int64(rng.Dur(200*time.Millisecond, 600*time.Millisecond) / time.Microsecond)
			p.Ops = append(p.Ops, harness.Op{At: at, Kind: "hist", N: rng.IntN(chains), A: int64(rng.IntN(2)), C: int64(rng.Uint64() >> 1), S: fmt.Sprint("v", i, "h", k)})
		}
	}
	if rng.Chance(0.6) {
		at += int64(2 * time.Second / time.Microsecond)
		p.Ops = append(p.Ops, harness.Op{At: at, Kind: "tooearly", N: rng.IntN(3), B: int64(rng.IntN(2)), C: int64(rng.Uint64() >> 1), S: "te"})
		at += int64(40 * time.Second / time.Microsecond)
	}
	p.Params["dur_ms"] = at/1000 + 3000
}

func c20InjectExec(p *harness.Plan) *harness.Outcome {
	r, err := newClusterRun("C20", p)
	if err != nil {
		o := harness.NewOutcome()
		o.ToolError = err.Error()
		return o
	}
	defer r.c.Close()
	c := r.c
	mon := &c20Mon{r: r, pre: map[*cluster.StoreCall]*c20Pre{}, fp: map[int]map[crypto.Hash]string{}, touched: map[int]map[crypto.Hash]bool{}}
	c.AddMonitor(mon)
	if err := c.Boot(); err != nil {
		r.out.ToolError = err.Error()
		return r.out
	}
	inj, err := newInjector(c, core.NewRng(core.SplitMix64(p.Seed^0x120)))
	if err != nil {
		r.out.ToolError = err.Error()
		return r.out
	}
	gap := config.SnapshotRoundGap
	var valid, forbidden []*injected
	kinds := map[string]int{}
	toAll := func(it *injected, vr *core.Rng, except int) {
		for to := 0; to < inj.n; to++ {
			if to != except {
				inj.deliver(c.External(), c.Nodes[to], it.tx, it.snap, vr.Dur(0, 40*time.Millisecond))
			}
		}
	}
	storedOn := func(n *cluster.SNode, it *injected) bool {
		if !n.Alive {
			return false
		}
		s, _ := n.Store.ReadSnapshot(it.snap.Hash)
		return s != nil
	}
	// after a variant: verdict on the victim, then restart it and hand it everything valid again
	conclude := func(victim *cluster.SNode, variant *injected, name string, wait time.Duration, vr *core.Rng) {
		c.Q.At(c.Q.Now+wait, "c20.verdict", func() {
			r.out.Evals++
			if storedOn(victim, variant) {
				c.Violate("C20", "forbidden-round-transition-applied:"+name, fmt.Sprintf("n%d stored snapshot %s of chain %s round %d whose references (%s) break the link rules", victim.Idx, variant.snap.Hash.String()[:8], variant.chain.id.String()[:8], variant.snap.RoundNumber, name), victim)
				return
			}
			c.Crash(victim, false)
			c.Q.At(c.Q.Now+300*time.Millisecond, "c20.restart", func() {
				if err := c.Restart(victim); err != nil {
					c.Violate("C20", "restart-failed", err.Error(), victim)
					return
				}
				for _, it := range valid {
					if !storedOn(victim, it) {
						inj.deliver(c.External(), victim, it.tx, it.snap, vr.Dur(0, 200*time.Millisecond))
					}
				}
			})
		})
	}
	closable := func(ch *injChain) bool { return len(ch.snaps) > 0 }
	r.extra["hist"] = func(op harness.Op, idx int) {
		vr := core.NewRng(uint64(op.C))
		inj.now = c.NowNano()
		it, err := inj.next(op.N, op.A == 1)
		if err != nil {
			return
		}
		valid = append(valid, it)
		toAll(it, vr, -1)
		kinds["valid"]++
	}
	r.extra["badref"] = func(op harness.Op, idx int) {
		vr := core.NewRng(uint64(op.C))
		inj.now = c.NowNano()
		x := inj.chains[op.N%len(inj.chains)]
		if !closable(x) || x.number == 0 {
			return
		}
		victim := c.Nodes[op.M%inj.n]
		if !victim.Alive {
			return
		}
		_, final := roundHashRef(x.id, x.number, x.snaps)
		good := inj.pickExternal(x)
		if good == nil {
			return
		}
		refs := &common.RoundLink{Self: final, External: good.hash}
		name := ""
		switch op.A {
		case 0:
			var stale *extRef
			for k := 0; k < len(inj.chains) && stale == nil; k++ {
				z := inj.chains[(int(op.B)+k)%len(inj.chains)]
				if z.id != x.id && x.links[z.id] >= 1 {
					below := x.links[z.id] - 1 - uint64(vr.IntN(int(x.links[z.id])))
					stale = &extRef{z.id, below, z.closed[below]}
				}
			}
			if stale == nil {
				return
			}
			name, refs.External = "stale-external", stale.hash
		case 1:
			name, refs.External = "own-chain", x.closed[x.number-1]
		case 3:
			// commits to a wrong previous round AND names an external round the victim has not seen yet
			// (a round another chain closes right now; everybody but the victim learns it)
			yi := -1
			for k := 0; k < len(inj.chains) && yi < 0; k++ {
				cand := inj.chains[(int(op.B)+k)%len(inj.chains)]
				if cand.id != x.id && closable(cand) && cand.number >= x.links[cand.id] {
					yi = (int(op.B) + k) % len(inj.chains)
				}
			}
			if yi < 0 {
				return
			}
			y := inj.chains[yi]
			itY, err := inj.next(yi, true)
			if err != nil {
				return
			}
			valid = append(valid, itY)
			toAll(itY, vr, victim.Idx)
			name = "self-mismatch-and-unknown-external"
			refs.External = y.closed[y.number-1]
			refs.Self = x.closed[x.number-1]
			if vr.Chance(0.5) {
				refs.Self = crypto.Blake3Hash(append(final[:], 1))
			}
		default:
			name = "self-mismatch"
			refs.Self = x.closed[x.number-1]
			if vr.Chance(0.5) {
				refs.Self = crypto.Blake3Hash(append(final[:], 1))
			}
		}
		start, _ := x.span()
		ts := inj.now
		if ts < start+gap+1 {
			ts = start + gap + 1
		}
		if ts <= x.lastTime {
			ts = x.lastTime + 1
		}
		variant := inj.placeRefs(x, x.number+1, ts, refs)
		forbidden = append(forbidden, variant)
		inj.deliver(c.External(), victim, variant.tx, variant.snap, vr.Dur(0, 30*time.Millisecond))
		kinds[name]++
		c.Trace.Logf(c.Q.Now, "variant %s chain %s round %d -> n%d", name, x.id.String()[:6], x.number+1, victim.Idx)
		conclude(victim, variant, name, 2500*time.Millisecond, vr)
	}
	r.extra["emptyhead"] = func(op harness.Op, idx int) {
		vr := core.NewRng(uint64(op.C))
		inj.now = c.NowNano()
		xi := op.N % len(inj.chains)
		x := inj.chains[xi]
		victim := c.Nodes[op.M%inj.n]
		if !closable(x) || !victim.Alive {
			return
		}
		// a chain y whose head round can be closed now, and a chain z to which x already links above zero
		var y, z *injChain
		yi := -1
		for k := 0; k < len(inj.chains); k++ {
			cand := inj.chains[(int(op.B)+k)%len(inj.chains)]
			if cand.id == x.id {
				continue
			}
			if y == nil && closable(cand) && cand.number >= x.links[cand.id] {
				y, yi = cand, (int(op.B)+k)%len(inj.chains)
				continue
			}
			if z == nil && x.links[cand.id] >= 1 {
				z = cand
			}
		}
		if y == nil || z == nil || z.id == y.id {
			return
		}
		// 1. y opens its next round (closing round r); everyone but the victim learns it
		itY, err := inj.next(yi, true)
		if err != nil {
			return
		}
		r0 := y.number - 1
		valid = append(valid, itY)
		toAll(itY, vr, victim.Idx)
		// 2. x opens its next round referencing y's round r; the victim does not know that round yet
		inj.forceExternal = &extRef{y.id, r0, y.closed[r0]}
		itX, err := inj.next(xi, true)
		inj.forceExternal = nil
		if err != nil {
			return
		}
		valid = append(valid, itX)
		c.Q.At(c.Q.Now+200*time.Millisecond, "c20.emptyhead.x", func() { toAll(itX, vr, -1) })
		// 3. the variant: same round of x, same self hash, external = a stale known round of z
		below := x.links[z.id] - 1
		if x.links[z.id] >= 2 && vr.Chance(0.5) {
			below = x.links[z.id] - 2
		}
		refs := &common.RoundLink{Self: itX.snap.References.Self, External: z.closed[below]}
		variant := inj.placeRefs(x, itX.snap.RoundNumber, itX.snap.Timestamp+1+uint64(vr.IntN(1000)), refs)
		forbidden = append(forbidden, variant)
		c.Q.At(c.Q.Now+900*time.Millisecond, "c20.emptyhead.variant", func() {
			if !victim.Alive {
				return
			}
			if ch := victim.Node.SimChain(x.id); ch != nil && ch.State != nil && ch.State.CacheRound.Number == itX.snap.RoundNumber && len(ch.State.CacheRound.Snapshots) == 0 {
				r.out.Probes["victim_head_round_open_and_empty"]++
			}
			inj.deliver(c.External(), victim, variant.tx, variant.snap, vr.Dur(0, 30*time.Millisecond))
			c.Trace.Logf(c.Q.Now, "variant empty-head-stale chain %s round %d -> n%d", x.id.String()[:6], variant.snap.RoundNumber, victim.Idx)
		})
		kinds["empty-head-stale"]++
		conclude(victim, variant, "empty-head-stale", 3500*time.Millisecond, vr)
	}
	// "tooearly": a proposal (strict path) whose external reference is a known final round above the
	// stored link but many hours older than what the other chains offer. The transition must be refused
	// with nothing changed, in memory as on disk.
	r.extra["tooearly"] = func(op harness.Op, idx int) {
		vr := core.NewRng(uint64(op.C))
		inj.now = c.NowNano()
		xi := op.N % len(inj.chains)
		x := inj.chains[xi]
		if !closable(x) {
			return
		}
		// y: a chain with a closed round above x's link to it (close one now if needed)
		yi := (xi + 1 + int(op.B)%2) % 3
		wi := 3 - xi%3 - yi%3
		if xi >= 3 || yi == xi || wi == xi || wi == yi || wi < 0 || wi > 2 {
			return
		}
		y, w := inj.chains[yi], inj.chains[wi]
		for k := 0; k < 3 && (y.number == 0 || y.number-1 <= x.links[y.id]); k++ {
			it, err := inj.next(yi, true)
			if err != nil {
				return
			}
			valid = append(valid, it)
			toAll(it, vr, -1)
		}
		if y.number == 0 || y.number-1 <= x.links[y.id] {
			return
		}
		oldRound := y.number - 1
		oldHash := y.closed[oldRound]
		// everybody idles for six hours
		c.Q.At(c.Q.Now+1500*time.Millisecond, "c20.tooearly.jump", func() {
			c.JumpTime(6 * time.Hour)
			r.fault("clock.jump_6h", c.Q.Now)
			// w moves on after the pause, and x links to w's first round after the pause
			var firstW *extRef
			for k := 0; k < 4; k++ {
				inj.now = c.NowNano() + uint64(k)*uint64(gap+gap/10)
				it, err := inj.next(wi, true)
				if err != nil {
					return
				}
				valid = append(valid, it)
				if k == 1 {
					firstW = &extRef{w.id, w.number - 1, w.closed[w.number-1]}
				}
				c.Q.At(c.Q.Now+time.Duration(k)*time.Duration(gap+gap/10)+time.Duration(vr.IntN(20))*time.Millisecond, "c20.tooearly.w", func() { toAll(it, vr, -1) })
			}
			if firstW == nil {
				return
			}
			after := 4 * time.Duration(gap+gap/10)
			c.Q.At(c.Q.Now+after, "c20.tooearly.x", func() {
				inj.now = c.NowNano()
				inj.forceExternal = firstW
				itX, err := inj.next(xi, true)
				inj.forceExternal = nil
				if err != nil {
					return
				}
				valid = append(valid, itX)
				toAll(itX, vr, -1)
				c.Q.At(c.Q.Now+1500*time.Millisecond, "c20.tooearly.announce", func() {
					xNode := c.Nodes[inj.order[0]]
					for _, n := range c.Nodes[:inj.n] {
						if n.Id == x.id {
							xNode = n
						}
					}
					if !xNode.Alive {
						return
					}
					c.Crash(xNode, false) // the proposer is Byzantine from here on: the simulator speaks for it
					_, final := roundHashRef(x.id, x.number, x.snaps)
					inj.seq++
					tx, _ := c.MakeDeposit(cluster.AssetBTC, common.NewIntegerFromString("0.5"), fmt.Sprintf("inj-%d", inj.seq), 0, []int{0}, 1)
					s := &common.Snapshot{Version: common.SnapshotVersionCommonEncoding, NodeId: x.id, RoundNumber: x.number + 1,
						References: &common.RoundLink{Self: final, External: oldHash}, Timestamp: c.NowNano()}
					s.AddTransaction(tx.PayloadHash())
					s.Hash = s.PayloadHash()
					seed := make([]byte, 64)
					vr.Bytes(seed)
					nonce := crypto.NewKeyFromSeed(seed)
					for _, n := range c.Nodes[:inj.n] {
						if n != xNode && n.Alive {
							c.Inject(xNode, n, buildTxBundle([]*common.VersionedTransaction{tx}, true), vr.Dur(0, 10*time.Millisecond))
							c.Inject(xNode, n, buildAnnouncement(s, nonce.Public(), xNode.Signer.PrivateSpendKey), 15*time.Millisecond+vr.Dur(0, 10*time.Millisecond))
						}
					}
					kinds["too-early-external"]++
					c.Trace.Logf(c.Q.Now, "proposal on chain %s round %d references round %d of chain %s from before the pause (link %d)", x.id.String()[:6], s.RoundNumber, oldRound, y.id.String()[:6], x.links[y.id])
					c.Q.At(c.Q.Now+4*time.Second, "c20.tooearly.restart", func() {
						r.out.Evals++
						if err := c.Restart(xNode); err != nil {
							c.Violate("C20", "restart-failed", err.Error(), xNode)
						}
					})
				})
			})
		})
	}
	r.schedule()
	r.settled = func() bool {
		for _, it := range valid {
			for i := 0; i < inj.n; i++ {
				if !storedOn(c.Nodes[i], it) {
					return false
				}
			}
		}
		return true
	}
	c.Run(time.Duration(p.P("dur_ms", 30000)) * time.Millisecond)
	missing := 0
	if !c.Halt {
		vr := core.NewRng(p.Seed ^ 0x77)
		for _, it := range valid {
			for i := 0; i < inj.n; i++ {
				if !storedOn(c.Nodes[i], it) {
					inj.deliver(c.External(), c.Nodes[i], it.tx, it.snap, vr.Dur(0, 500*time.Millisecond))
				}
			}
		}
		r.settle(100*time.Second, false)
	}
	if !c.Halt {
		for _, it := range forbidden {
			for i := 0; i < inj.n; i++ {
				r.out.Evals++
				if storedOn(c.Nodes[i], it) {
					c.Violate("C20", "forbidden-round-transition-applied", fmt.Sprintf("n%d stored snapshot %s of chain %s round %d with rule-breaking references", i, it.snap.Hash.String()[:8], it.chain.id.String()[:8], it.snap.RoundNumber), c.Nodes[i])
				}
			}
		}
		for _, it := range valid {
			for i := 0; i < inj.n; i++ {
				if !storedOn(c.Nodes[i], it) {
					missing++
				}
			}
		}
	}
	r.out.Probes["round_starts"] += mon.starts
	r.out.Probes["empty_head_updates"] += mon.updates
	r.out.Probes["injected_valid"] += len(valid)
	r.out.Probes["injected_forbidden"] += len(forbidden)
	r.out.Probes["valid_missing_somewhere"] += missing
	for k, v := range kinds {
		r.out.Faults["byz.references."+k] += v
	}
	relabelPanic(r, "C20")
	return r.finish(mon.starts > 0 && len(forbidden) > 0, map[string]any{"mode": "finalized-path injection", "round_starts": mon.starts, "empty_head_updates": mon.updates, "valid": len(valid), "forbidden": len(forbidden), "kinds": kinds, "missing": missing})
}
