// Package core holds the simulator primitives shared by every rig: the
// seeded PRNG (the only source of choice), the discrete-event heap, the
// canonical event log and its digest.
package core

import (
	"container/heap"
	"crypto/sha256"
	"encoding/binary"
	"encoding/hex"
	"fmt"
	"hash"
	"math/rand/v2"
	"time"
)

// SplitMix64 derives independent sub-seeds from one integer.
func SplitMix64(x uint64) uint64 {
	x += 0x9e3779b97f4a7c15
	z := x
	z = (z ^ (z >> 30)) * 0xbf58476d1ce4e5b9
	z = (z ^ (z >> 27)) * 0x94d049bb133111eb
	return z ^ (z >> 31)
}

// Rng is a PCG stream; every choice of a run is drawn from streams derived
// from the run seed.
type Rng struct {
	*rand.Rand
	seed uint64
}

func NewRng(seed uint64) *Rng {
	return &Rng{Rand: rand.New(rand.NewPCG(seed, SplitMix64(seed))), seed: seed}
}

func (r *Rng) Sub(label uint64) *Rng {
	return NewRng(SplitMix64(r.seed ^ SplitMix64(label)))
}

func (r *Rng) Seed() uint64 { return r.seed }

func (r *Rng) Chance(p float64) bool { return r.Float64() < p }

func (r *Rng) Dur(lo, hi time.Duration) time.Duration {
	if hi <= lo {
		return lo
	}
	return lo + time.Duration(r.Int64N(int64(hi-lo)+1))
}

func (r *Rng) Pick(n int) int {
	if n <= 0 {
		panic("pick from empty")
	}
	return r.IntN(n)
}

func (r *Rng) Bytes(b []byte) {
	for i := 0; i < len(b); i += 8 {
		v := r.Uint64()
		for j := 0; j < 8 && i+j < len(b); j++ {
			b[i+j] = byte(v >> (8 * j))
		}
	}
}

// Event is one scheduled simulator action.
type Event struct {
	At   time.Duration
	Seq  uint64
	Kind string
	Run  func()
}

type eventHeap []*Event

func (h eventHeap) Len() int { return len(h) }
func (h eventHeap) Less(i, j int) bool {
	if h[i].At != h[j].At {
		return h[i].At < h[j].At
	}
	return h[i].Seq < h[j].Seq
}
func (h eventHeap) Swap(i, j int) { h[i], h[j] = h[j], h[i] }
func (h *eventHeap) Push(x any)   { *h = append(*h, x.(*Event)) }
func (h *eventHeap) Pop() any {
	old := *h
	n := len(old)
	e := old[n-1]
	*h = old[:n-1]
	return e
}

// Queue is the discrete-event queue ordered by (time, sequence).
type Queue struct {
	Now time.Duration
	seq uint64
	h   eventHeap
}

func (q *Queue) At(t time.Duration, kind string, f func()) {
	if t < q.Now {
		t = q.Now
	}
	q.seq++
	heap.Push(&q.h, &Event{At: t, Seq: q.seq, Kind: kind, Run: f})
}

func (q *Queue) After(d time.Duration, kind string, f func()) {
	q.At(q.Now+d, kind, f)
}

func (q *Queue) Len() int { return len(q.h) }

func (q *Queue) Peek() *Event {
	if len(q.h) == 0 {
		return nil
	}
	return q.h[0]
}

func (q *Queue) Pop() *Event {
	if len(q.h) == 0 {
		return nil
	}
	e := heap.Pop(&q.h).(*Event)
	if e.At > q.Now {
		q.Now = e.At
	}
	return e
}

// Trace is the canonical semantic event log. Only its digest and a bounded
// tail are kept; logging never draws from a PRNG nor reads a clock.
type Trace struct {
	h     hash.Hash
	n     uint64
	tail  []string
	limit int
	Full  []string
	Keep  bool
}

func NewTrace(tail int) *Trace {
	return &Trace{h: sha256.New(), limit: tail}
}

func (t *Trace) Logf(now time.Duration, format string, args ...any) {
	line := fmt.Sprintf("%012d ", int64(now/time.Microsecond)) + fmt.Sprintf(format, args...)
	t.n++
	var b [8]byte
	binary.BigEndian.PutUint64(b[:], t.n)
	t.h.Write(b[:])
	t.h.Write([]byte(line))
	if t.Keep {
		t.Full = append(t.Full, line)
	}
	if t.limit > 0 {
		t.tail = append(t.tail, line)
		if len(t.tail) > t.limit {
			t.tail = t.tail[len(t.tail)-t.limit:]
		}
	}
}

func (t *Trace) Digest() string { return hex.EncodeToString(t.h.Sum(nil))[:32] }
func (t *Trace) Count() uint64  { return t.n }
func (t *Trace) Tail() []string { return append([]string{}, t.tail...) }
