package props

import (
	"errors"
	"fmt"
	"time"

	"filippo.io/edwards25519"
	"github.com/anishathalye/porcupine"

	"verifsim/core"
	"verifsim/harness"

	"github.com/MixinNetwork/mixin/crypto"
)

// C12 — a CoSi nonce never answers two different challenges.
//
// R4: T tasks share copies of one CosiNonce handle and call Response with
// challenges from a small set. The tasks are real goroutines, but exactly one
// runs at a time: each parks at the cooperative yield points inside the
// nonce's check-then-act (hook H7, incl. a cooperative wait for the mutex that
// provides no exclusion itself), and the simulator releases one task per
// decision. A schedule is the list of decisions; for T <= 3 every schedule is
// enumerated, otherwise schedules are drawn from the run PRNG. Oracle: the
// recorded history (invoke/return stamped with the global decision counter)
// must be linearizable w.r.t. a single-assignment register (porcupine);
// identical challenge => identical response; a different challenge =>
// ErrCosiNonceReuse; two successful responses to different challenges reveal
// the private key (the recovery equation is evaluated and reported).

type coopTask struct {
	id      int
	resume  chan struct{}
	event   chan string // "" = finished, otherwise the yield point name
	done    bool
	blocked bool // parked waiting for the mutex; not runnable until another task moved
}

type coopSched struct {
	hook    *func(string) // the yield seam to install (default: crypto.SimYield, hook H7)
	points  []string      // yield points reported, in decision order (diagnostics)
	tasks   []*coopTask
	cur     *coopTask
	clock   int64
	decided []int // options per decision
	chosen  []int
}

func (s *coopSched) yield(point string) {
	t := s.cur
	t.event <- point
	<-t.resume
}

// run executes fns under the schedule `choices` (decision i picks
// runnable[choices[i] % len(runnable)]; missing entries pick 0).
func (s *coopSched) run(fns []func(), choices []int, maxSteps int) error {
	s.tasks = nil
	for i, fn := range fns {
		t := &coopTask{id: i, resume: make(chan struct{}), event: make(chan string)}
		s.tasks = append(s.tasks, t)
		go func(t *coopTask, fn func()) {
			<-t.resume
			fn()
			t.event <- ""
		}(t, fn)
	}
	hook := s.hook
	if hook == nil {
		hook = &crypto.SimYield
	}
	*hook = s.yield
	defer func() { *hook = nil }()
	for step := 0; ; step++ {
		var runnable []*coopTask
		alive := 0
		for _, t := range s.tasks {
			if !t.done {
				alive++
				if !t.blocked {
					runnable = append(runnable, t)
				}
			}
		}
		if alive == 0 {
			return nil
		}
		if len(runnable) == 0 {
			return fmt.Errorf("all tasks blocked on a mutex")
		}
		if step > maxSteps {
			return fmt.Errorf("schedule did not terminate within %d decisions", maxSteps)
		}
		pick := 0
		if step < len(choices) {
			pick = choices[step] % len(runnable)
		}
		s.decided = append(s.decided, len(runnable))
		s.chosen = append(s.chosen, pick)
		t := runnable[pick]
		s.cur = t
		s.clock++
		t.resume <- struct{}{}
		ev := <-t.event
		s.points = append(s.points, fmt.Sprintf("t%d:%s", t.id, ev))
		if ev == "" {
			t.done = true
		}
		if len(ev) > 8 && ev[len(ev)-8:] == ".blocked" {
			t.blocked = true
		} else {
			for _, o := range s.tasks {
				o.blocked = false
			}
		}
	}
}

type c12Challenge struct {
	sig     *crypto.CosiSignature
	publics []*crypto.Key
	message crypto.Hash
	scalar  [32]byte
}

type c12Op struct {
	task      int
	challenge int
	call, ret int64
	ok        bool
	reuse     bool
	other     string
	response  [32]byte
}

type c12In struct{ challenge int }
type c12Out struct {
	ok, reuse bool
	response  [32]byte
}
type c12State struct {
	bound     bool
	challenge int
	response  [32]byte
}

var c12Model = porcupine.Model{
	Init: func() interface{} { return c12State{} },
	Step: func(state, input, output interface{}) (bool, interface{}) {
		st, in, out := state.(c12State), input.(c12In), output.(c12Out)
		if !st.bound {
			if !out.ok {
				return false, st
			}
			return true, c12State{bound: true, challenge: in.challenge, response: out.response}
		}
		if in.challenge == st.challenge {
			return out.ok && out.response == st.response, st
		}
		return !out.ok && out.reuse, st
	},
	Equal: func(a, b interface{}) bool { return a.(c12State) == b.(c12State) },
}

// c12Setup builds the signer key, the shared nonce and k distinct challenges
// (different messages and/or different commitment sets / key vectors).
func c12Setup(rng *core.Rng, k int) (priv crypto.Key, nonce *crypto.CosiNonce, chs []*c12Challenge) {
	seed := make([]byte, 64)
	rng.Bytes(seed)
	priv = crypto.NewKeyFromSeed(seed)
	pub := priv.Public()
	nseed := make([]byte, 64)
	rng.Bytes(nseed)
	prev := crypto.SimRand
	crypto.SimRand = func(b []byte) { copy(b, nseed) }
	nonce = crypto.CosiCommitNonce(crypto.RandReader())
	crypto.SimRand = prev
	R := nonce.Public()
	mes := []int{}
	for i := 0; i < k; i++ {
		if i > 0 && rng.Chance(0.5) {
			// a challenge that differs from the first one in a single ingredient: one other signer's
			// key (same aggregated commitment, mask and message), or only the message
			base := chs[0]
			publics := append([]*crypto.Key{}, base.publics...)
			msg := base.message
			var others []int
			for _, j := range base.sig.Keys() {
				if j != mes[0] {
					others = append(others, j)
				}
			}
			if len(others) > 0 && rng.Chance(0.7) {
				s := make([]byte, 64)
				rng.Bytes(s)
				kk := crypto.NewKeyFromSeed(s).Public()
				publics[others[rng.IntN(len(others))]] = &kk
			} else {
				rng.Bytes(msg[:])
			}
			sigCopy := *base.sig
			ch := &c12Challenge{sig: &sigCopy, publics: publics, message: msg}
			sc, err := ch.sig.Challenge(publics, msg)
			if err != nil {
				panic(err)
			}
			copy(ch.scalar[:], sc.Bytes())
			chs = append(chs, ch)
			mes = append(mes, mes[0])
			continue
		}
		n := 3 + rng.IntN(5)
		me := rng.IntN(n)
		mes = append(mes, me)
		publics := make([]*crypto.Key, n)
		commitments := map[int]*crypto.Key{}
		for j := 0; j < n; j++ {
			if j == me {
				publics[j] = &pub
				commitments[j] = &R
				continue
			}
			s := make([]byte, 64)
			rng.Bytes(s)
			kk := crypto.NewKeyFromSeed(s).Public()
			publics[j] = &kk
			if rng.Chance(0.7) {
				rng.Bytes(s)
				c := crypto.NewKeyFromSeed(s).Public()
				commitments[j] = &c
			}
		}
		sig, err := crypto.CosiAggregateCommitment(commitments)
		if err != nil {
			panic(err)
		}
		var msg crypto.Hash
		rng.Bytes(msg[:])
		ch := &c12Challenge{sig: sig, publics: publics, message: msg}
		sc, err := sig.Challenge(publics, msg)
		if err != nil {
			panic(err)
		}
		copy(ch.scalar[:], sc.Bytes())
		chs = append(chs, ch)
	}
	return
}

// c12RunOnce executes one schedule and judges its history.
func c12RunOnce(seed uint64, tasks int, assign []int, nch int, choices []int) (ops []*c12Op, sched *coopSched, viol *harness.Violation, toolErr error) {
	rng := core.NewRng(seed)
	priv, nonce, chs := c12Setup(rng, nch)
	sched = &coopSched{}
	ops = make([]*c12Op, tasks)
	fns := make([]func(), tasks)
	for i := 0; i < tasks; i++ {
		i := i
		handle := *nonce // a copy of the handle shares the nonce state
		ch := chs[assign[i]%nch]
		op := &c12Op{task: i, challenge: assign[i] % nch}
		ops[i] = op
		fns[i] = func() {
			op.call = sched.clock
			p := priv
			r, err := handle.Response(ch.sig, &p, ch.publics, ch.message)
			op.ret = sched.clock
			switch {
			case err == nil && r != nil:
				op.ok, op.response = true, *r
			case errors.Is(err, crypto.ErrCosiNonceReuse):
				op.reuse = true
			default:
				op.other = fmt.Sprint(err)
			}
		}
	}
	if err := sched.run(fns, choices, 400); err != nil {
		return ops, sched, nil, err
	}
	describe := func() string {
		s := fmt.Sprintf("schedule %v;", sched.chosen)
		for _, o := range ops {
			s += fmt.Sprintf(" task%d(challenge %d)[%d,%d]=ok:%v reuse:%v %s;", o.task, o.challenge, o.call, o.ret, o.ok, o.reuse, o.other)
		}
		return s
	}
	// direct oracle: two successful answers to different challenges
	for i := range ops {
		for j := i + 1; j < len(ops); j++ {
			a, b := ops[i], ops[j]
			if a.ok && b.ok && a.challenge != b.challenge {
				leak := c12Recover(a.response, b.response, chs[a.challenge].scalar, chs[b.challenge].scalar)
				return ops, sched, &harness.Violation{Property: "C12", Signature: "nonce-answered-two-challenges", Detail: fmt.Sprintf("private key recoverable from the two responses: %v. %s", leak == priv, describe())}, nil
			}
			if a.ok && b.ok && a.challenge == b.challenge && a.response != b.response {
				return ops, sched, &harness.Violation{Property: "C12", Signature: "same-challenge-different-responses", Detail: describe()}, nil
			}
		}
	}
	var history []porcupine.Operation
	for _, o := range ops {
		if o.other != "" {
			return ops, sched, &harness.Violation{Property: "C12", Signature: "unexpected-response-error", Detail: describe()}, nil
		}
		history = append(history, porcupine.Operation{ClientId: o.task, Input: c12In{o.challenge}, Call: o.call, Output: c12Out{o.ok, o.reuse, o.response}, Return: o.ret})
	}
	switch porcupine.CheckOperationsTimeout(c12Model, history, 10*time.Second) {
	case porcupine.Illegal:
		return ops, sched, &harness.Violation{Property: "C12", Signature: "history-not-linearizable", Detail: describe()}, nil
	}
	// the first successful response must be a valid Schnorr response
	for _, o := range ops {
		if o.ok {
			ch := chs[o.challenge]
			me := -1
			pub := priv.Public()
			for idx, k := range ch.publics {
				if *k == pub {
					me = idx
				}
			}
			if err := ch.sig.VerifyResponse(ch.publics, me, &o.response, ch.message); err != nil {
				return ops, sched, &harness.Violation{Property: "C12", Signature: "response-does-not-verify", Detail: describe()}, nil
			}
		}
	}
	return ops, sched, nil, nil
}

// c12Recover computes (s1-s2)/(c1-c2), the private key if both responses
// used the same nonce.
func c12Recover(s1, s2, c1, c2 [32]byte) crypto.Key {
	a, _ := edwards25519.NewScalar().SetCanonicalBytes(s1[:])
	b, _ := edwards25519.NewScalar().SetCanonicalBytes(s2[:])
	x, _ := edwards25519.NewScalar().SetCanonicalBytes(c1[:])
	y, _ := edwards25519.NewScalar().SetCanonicalBytes(c2[:])
	ds := edwards25519.NewScalar().Subtract(a, b)
	dc := edwards25519.NewScalar().Subtract(x, y)
	inv := edwards25519.NewScalar().Invert(dc)
	k := edwards25519.NewScalar().Multiply(ds, inv)
	var out crypto.Key
	copy(out[:], k.Bytes())
	return out
}

func c12Gen(rng *core.Rng, tier string) *harness.Plan {
	p := &harness.Plan{Seed: rng.Uint64(), Params: map[string]int64{}}
	if rng.Chance(0.08) {
		c12WireGen(rng, tier, p) // real nodes against an equivocating proposer, see c12wire.go
		return p
	}
	tasks := 2 + rng.IntN(4)
	nch := 1 + rng.IntN(3)
	p.Params["tasks"], p.Params["challenges"] = int64(tasks), int64(nch)
	if tasks <= 3 && rng.Chance(0.5) {
		p.Params["enumerate"] = 1
	}
	for i := 0; i < tasks; i++ {
		p.Ops = append(p.Ops, harness.Op{Kind: "task", A: int64(rng.IntN(nch))})
	}
	for i := 0; i < 80; i++ {
		p.Ops = append(p.Ops, harness.Op{Kind: "pick", A: int64(rng.IntN(60))})
	}
	return p
}

func c12Exec(p *harness.Plan) *harness.Outcome {
	if p.P("wire", 0) == 1 {
		return c12WireExec(p)
	}
	c := newCtx("C12")
	var assign, choices []int
	for _, op := range p.Ops {
		if op.Kind == "task" {
			assign = append(assign, int(op.A))
		} else if op.Kind == "pick" {
			choices = append(choices, int(op.A))
		}
	}
	tasks, nch := len(assign), int(p.P("challenges", 2))
	if tasks < 2 {
		return c.done(false, nil)
	}
	distinct := map[int]bool{}
	for _, a := range assign {
		distinct[a%nch] = true
	}
	schedules := 0
	if p.P("enumerate", 0) == 1 && tasks <= 3 {
		// stateless depth-first enumeration of every schedule
		prefix := []int{}
		for {
			_, sched, viol, terr := c12RunOnce(p.Seed, tasks, assign, nch, prefix)
			if terr != nil {
				return c.tool(terr)
			}
			schedules++
			c.out.Evals++
			if viol != nil {
				c.out.Violation = viol
				c.out.Digest = fmt.Sprint("enum", schedules)
				return c.out
			}
			// next schedule: bump the last decision that has an untried option
			next := append([]int{}, sched.chosen...)
			i := len(next) - 1
			for ; i >= 0; i-- {
				if next[i]+1 < sched.decided[i] {
					next[i]++
					next = next[:i+1]
					break
				}
			}
			if i < 0 {
				break
			}
			prefix = next
			if schedules > 200000 {
				return c.tool(fmt.Errorf("enumeration exceeds 200000 schedules"))
			}
		}
		c.out.Probes["schedules_enumerated"] += schedules
		c.out.Probes["exhaustive_configurations"]++
	} else {
		ops, sched, viol, terr := c12RunOnce(p.Seed, tasks, assign, nch, choices)
		if terr != nil {
			return c.tool(terr)
		}
		schedules = 1
		c.out.Evals++
		if viol != nil {
			c.out.Violation = viol
			return c.out
		}
		c.logf("schedule %v", sched.chosen)
		for _, o := range ops {
			c.logf("task%d ch%d ok=%v reuse=%v", o.task, o.challenge, o.ok, o.reuse)
			if o.reuse {
				c.out.Probes["reuse_refused"]++
			}
		}
	}
	c.logf("tasks=%d challenges=%d assign=%v schedules=%d", tasks, nch, assign, schedules)
	c.out.Faults["schedule.interleavings"] += schedules
	return c.done(len(distinct) > 1, map[string]any{"tasks": tasks, "challenges": nch, "assign": assign, "schedules": schedules})
}

func init() {
	harness.Register(&harness.Property{
		ID:    "C12",
		Level: "exploration",
		Rule: "2-5 tasks share copies of one nonce handle and answer challenges drawn from 1-3 distinct (commitment set, key vector, message) triples; one task runs at a time, parked at 4 yield points inside respond() plus a cooperative mutex wait; schedules are explicit decision lists (seeded; for half of the configurations with at most 3 tasks every schedule is enumerated depth-first); history checked with porcupine against a single-assignment register, plus direct key-recovery and response-verification oracles; " +
			"8% of the runs are cluster runs in which a Byzantine proposer (simulator) sends two different challenges for one snapshot to real nodes (announcement path; full-challenge path with pre-commitments and a pause of more than a minute): no node may produce valid responses to both; " +
			"non-trivial = the tasks use at least two different challenges; distinct = canonical-log digests",
		Components: map[string]string{"crypto.CosiNonce / crypto.CosiSignature (real)": "real", "goroutine scheduling": "simulated: tasks park at hook H7 yield points, one released per decision", "kernel retained-nonce maps": "not in this rig (single-threaded per chain loop in the kernel)"},
		Assume:     []string{"interleavings finer than the yield points inside respond() are not explored", "A2 curve arithmetic correct"},
		Gen:        c12Gen,
		Exec:       c12Exec,
		QuickRuns:  4000, ThoroughRuns: 400000,
		QuickWall: 30 * time.Second, ThoroughWall: 8 * time.Minute,
	})
}
