package props

import (
	"fmt"
	"time"

	"verifsim/cluster"
	"verifsim/core"
	"verifsim/harness"

	"github.com/MixinNetwork/mixin/common"
	"github.com/MixinNetwork/mixin/crypto"
	"github.com/MixinNetwork/mixin/p2p"
)

// C12, on the wire (cluster with an equivocating proposer). The nonce rig
// drives the nonce handle directly. Here the handle is used the way the
// running node uses it: a real node commits a nonce when it answers an
// announcement and spends it when it answers the challenge. One member is
// Byzantine; the simulator runs its proposer side (c26byz.go driver) and
// equivocates: after collecting the honest commitments it sends two DIFFERENT
// challenges for the same snapshot (signer masks that differ in one member, so
// the aggregated commitment, the aggregate key and hence the challenge scalar
// differ), each several times, duplicated and reordered by the transport.
//
// Oracle: every response a real node puts on the wire is classified by the
// verification equation s*G == R_i + c*A_i against the node's OWN commitment R_i
// under challenge 1 and under challenge 2. A node whose commitment is in both
// masks must never produce a valid response for both (two responses with one
// nonce to different challenges reveal its private key: the key is recomputed
// and compared); responses to the same challenge must be byte-identical.

type c12WireMon struct {
	cluster.BaseMonitor
	r         *crun
	inj       *injector
	leader    *cluster.SNode
	pos       int
	snap      *common.Snapshot
	nonce     crypto.Key
	commits   map[int]*crypto.Key
	cosi      [2]*crypto.CosiSignature
	scalar    [2][32]byte
	answers   [2]map[int][32]byte
	pre       map[int][]*crypto.Key // pre-commitments received from real nodes (full-challenge path)
	sentAt    time.Duration
	repeats   int
	identical int
}

func (b *c12WireMon) posOf(n *cluster.SNode) int {
	for pos, idx := range b.inj.order {
		if idx == n.Idx {
			return pos
		}
	}
	return -1
}

func (b *c12WireMon) OnSend(from, to *cluster.SNode, data []byte) [][]byte {
	if to != b.leader {
		return nil
	}
	if p2p.SimMessageType(data) == p2p.PeerMessageTypePreCommitments && b.pre != nil {
		if msg, err := p2p.SimParse(data); err == nil {
			if pos := b.posOf(from); pos >= 0 {
				b.pre[pos] = msg.Commitments
			}
		}
		return nil
	}
	if b.snap == nil {
		return nil
	}
	c := b.r.c
	switch p2p.SimMessageType(data) {
	case p2p.PeerMessageTypeBatchSnapshotCommitment:
		msg, err := p2p.SimParse(data)
		if err != nil || msg.SnapshotHash != b.snap.Hash || b.cosi[0] != nil {
			return nil
		}
		pos := b.posOf(from)
		if pos < 0 || b.commits[pos] != nil {
			return nil
		}
		R := msg.Commitment
		b.commits[pos] = &R
		need := b.inj.threshold() // threshold-1 honest members per mask plus one more to swap
		if len(b.commits) < need {
			return nil
		}
		var ps []int
		for p := range b.commits {
			ps = append(ps, p)
		}
		sortInts(ps)
		own := b.nonce.Public()
		build := func(skip int) *crypto.CosiSignature {
			set := map[int]*crypto.Key{b.pos: &own}
			for _, p := range ps {
				if p != skip && len(set) < b.inj.threshold() {
					set[p] = b.commits[p]
				}
			}
			cosi, err := crypto.CosiAggregateCommitment(set)
			if err != nil {
				return nil
			}
			priv := b.leader.Signer.PrivateSpendKey
			mine, err := cosi.Response(&priv, &b.nonce, b.inj.publicKeys(), b.snap.Hash)
			if err != nil {
				return nil
			}
			copy(cosi.Signature[32:], mine[:])
			return cosi
		}
		// mask 1 leaves out the last committed member, mask 2 the first: they share threshold-2 honest members
		b.cosi[0], b.cosi[1] = build(ps[len(ps)-1]), build(ps[0])
		if b.cosi[0] == nil || b.cosi[1] == nil || b.cosi[0].Mask == b.cosi[1].Mask {
			b.cosi[0] = nil
			return nil
		}
		for k := 0; k < 2; k++ {
			sc, _ := b.cosi[k].Challenge(b.inj.publicKeys(), b.snap.Hash)
			copy(b.scalar[k][:], sc.Bytes())
		}
		rng := core.NewRng(uint64(b.snap.Timestamp))
		for rep := 0; rep < 3; rep++ {
			for k := 0; k < 2; k++ {
				for _, p := range b.cosi[k].Keys() {
					if p == b.pos {
						continue
					}
					n := c.Nodes[b.inj.order[p]]
					c.Inject(b.leader, n, buildTransactionChallenge(b.snap.Hash, b.cosi[k]), rng.Dur(0, 40*time.Millisecond)+time.Duration(rep)*60*time.Millisecond)
				}
			}
		}
		b.sentAt = c.Q.Now
		c.Trace.Logf(c.Q.Now, "equivocating proposer n%d sends challenges with masks %b and %b for %s", b.leader.Idx, b.cosi[0].Mask, b.cosi[1].Mask, b.snap.Hash.String()[:8])
	case p2p.PeerMessageTypeBatchSnapshotResponse:
		msg, err := p2p.SimParse(data)
		if err != nil || msg.SnapshotHash != b.snap.Hash || b.cosi[0] == nil {
			return nil
		}
		pos := b.posOf(from)
		if pos < 0 || b.commits[pos] == nil {
			return nil
		}
		resp := msg.Response
		b.r.out.Evals++
		matched := false
		for k := 0; k < 2; k++ {
			inMask := false
			for _, p := range b.cosi[k].Keys() {
				inMask = inMask || p == pos
			}
			if !inMask || b.cosi[k].VerifyResponse(b.inj.publicKeys(), pos, &resp, b.snap.Hash) != nil {
				continue
			}
			matched = true
			if prev, ok := b.answers[k][pos]; ok {
				b.repeats++
				if prev == resp {
					b.identical++
				} else {
					c.Violate("C12", "same-challenge-different-responses:wire", fmt.Sprintf("n%d answered challenge %d for snapshot %s twice with different responses", from.Idx, k+1, b.snap.Hash.String()[:8]), from)
				}
			}
			b.answers[k][pos] = resp
		}
		if !matched {
			b.r.out.Probes["responses_valid_for_neither_challenge"]++
		}
		a1, ok1 := b.answers[0][pos]
		a2, ok2 := b.answers[1][pos]
		if ok1 && ok2 {
			leak := c12Recover(a1, a2, b.scalar[0], b.scalar[1])
			c.Violate("C12", "nonce-answered-two-challenges:wire", fmt.Sprintf("n%d answered two different challenges (masks %b and %b) for snapshot %s with the nonce it committed once; private key recomputed from the two responses equals its key: %v", from.Idx, b.cosi[0].Mask, b.cosi[1].Mask, b.snap.Hash.String()[:8], leak == from.Signer.PrivateSpendKey), from)
		}
	}
	return nil
}

func sortInts(a []int) {
	for i := 1; i < len(a); i++ {
		for j := i; j > 0 && a[j] < a[j-1]; j-- {
			a[j], a[j-1] = a[j-1], a[j]
		}
	}
}

func c12WireGen(rng *core.Rng, tier string, p *harness.Plan) {
	p.Params = map[string]int64{"wire": 1, "nodes": int64(7 + rng.IntN(3)), "start_s": int64(3600 + rng.IntN(60000)), "maxlat_ms": int64(5 + rng.IntN(60)), "op_period_s": 10000000}
	if rng.Chance(0.5) {
		p.Params["dup_ppm"] = int64(rng.IntN(200000))
	}
	if rng.Chance(0.5) {
		p.Params["reorder_ppm"] = int64(rng.IntN(300000))
	}
	p.Params["leader"] = int64(rng.IntN(9))
	p.Params["before"] = int64(1 + rng.IntN(4))
	p.Params["rounds"] = int64(1 + rng.IntN(2))
}

func c12WireExec(p *harness.Plan) *harness.Outcome {
	r, err := newClusterRun("C12", p)
	if err != nil {
		o := harness.NewOutcome()
		o.ToolError = err.Error()
		return o
	}
	defer r.c.Close()
	c := r.c
	if err := c.Boot(); err != nil {
		r.out.ToolError = err.Error()
		return r.out
	}
	rng := core.NewRng(core.SplitMix64(p.Seed ^ 0x12e))
	inj, err := newInjector(c, rng.Sub(1))
	if err != nil {
		r.out.ToolError = err.Error()
		return r.out
	}
	leader := c.Nodes[int(p.P("leader", 0))%inj.n]
	c.Run(2 * time.Second)
	others := func() []*cluster.SNode {
		var out []*cluster.SNode
		for i := 0; i < inj.n; i++ {
			if c.Nodes[i] != leader {
				out = append(out, c.Nodes[i])
			}
		}
		return out
	}
	for i := 0; i < int(p.P("before", 2)) && !c.Halt; i++ {
		inj.now = c.NowNano()
		it, err := inj.next(rng.IntN(inj.n), rng.Chance(0.5))
		if err != nil {
			continue
		}
		for _, n := range c.Nodes[:inj.n] {
			inj.deliver(c.External(), n, it.tx, it.snap, rng.Dur(0, 30*time.Millisecond))
		}
		c.Run(c.Q.Now + rng.Dur(300*time.Millisecond, 900*time.Millisecond))
	}
	c.Crash(leader, false)
	li := inj.chainIndex(leader.Id)
	equivocations, bothMasks := 0, 0
	pre := &c12WireMon{r: r, inj: inj, leader: leader, pre: map[int][]*crypto.Key{}}
	c.AddMonitor(pre)
	for round := 0; round < int(p.P("rounds", 1)) && !c.Halt; round++ {
		inj.now = c.NowNano()
		draft, err := inj.next(li, round > 0)
		if err != nil {
			break
		}
		s := copySnapshot(draft.snap)
		s.Signature = nil
		s.Hash = s.PayloadHash()
		seed := make([]byte, 64)
		rng.Bytes(seed)
		b := &c12WireMon{r: r, inj: inj, leader: leader, snap: s, nonce: crypto.NewKeyFromSeed(seed), commits: map[int]*crypto.Key{}}
		b.pos = b.posOf(leader)
		b.answers[0], b.answers[1] = map[int][32]byte{}, map[int][32]byte{}
		c.AddMonitor(b)
		for _, n := range others() {
			c.Inject(leader, n, buildTxBundle([]*common.VersionedTransaction{draft.tx}, true), rng.Dur(0, 10*time.Millisecond))
			c.Inject(leader, n, buildAnnouncement(s, b.nonce.Public(), leader.Signer.PrivateSpendKey), 15*time.Millisecond+rng.Dur(0, 10*time.Millisecond))
		}
		c.Run(c.Q.Now + 5*time.Second)
		b.snap = nil // this round is over
		if b.cosi[0] != nil {
			equivocations++
			r.out.Faults["byz.leader_equivocates_challenge"]++
			for _, pos := range b.cosi[0].Keys() {
				for _, q := range b.cosi[1].Keys() {
					if pos == q && pos != b.pos {
						bothMasks++
					}
				}
			}
		}
		r.out.Probes["wire_responses_to_challenge_1"] += len(b.answers[0])
		r.out.Probes["wire_responses_to_challenge_2"] += len(b.answers[1])
		r.out.Probes["wire_identical_retries"] += b.identical
		// the snapshot was never finalized: forget the draft in the chain model
		ch := inj.chains[li]
		ch.snaps = ch.snaps[:len(ch.snaps)-1]
		ch.lastTime = draft.snap.Timestamp
	}
	// Full-challenge path: the proposer skips the announcement and names, in a full challenge, one of the
	// commitments each node handed out in advance. It does so twice for the same snapshot, more than a
	// minute apart (after the transport's recently-sent suppression has expired, the network otherwise
	// idle), with two different signer masks that share members.
	if pre != nil && len(pre.pre) >= inj.threshold() && !c.Halt {
		inj.now = c.NowNano()
		draft, err := inj.next(li, true)
		if err == nil {
			s := copySnapshot(draft.snap)
			s.Signature = nil
			s.Hash = s.PayloadHash()
			seed := make([]byte, 64)
			rng.Bytes(seed)
			b := &c12WireMon{r: r, inj: inj, leader: leader, snap: s, nonce: crypto.NewKeyFromSeed(seed), commits: map[int]*crypto.Key{}}
			b.pos = b.posOf(leader)
			b.answers[0], b.answers[1] = map[int][32]byte{}, map[int][32]byte{}
			var ps []int
			for p, list := range pre.pre {
				if len(list) > 0 {
					ps = append(ps, p)
					b.commits[p] = list[rng.IntN(len(list))]
				}
			}
			sortInts(ps)
			own := b.nonce.Public()
			build := func(skip int) *crypto.CosiSignature {
				set := map[int]*crypto.Key{b.pos: &own}
				for _, p := range ps {
					if p != skip && len(set) < inj.threshold() {
						set[p] = b.commits[p]
					}
				}
				cosi, err := crypto.CosiAggregateCommitment(set)
				if err != nil {
					return nil
				}
				priv := leader.Signer.PrivateSpendKey
				mine, err := cosi.Response(&priv, &b.nonce, inj.publicKeys(), s.Hash)
				if err != nil {
					return nil
				}
				copy(cosi.Signature[32:], mine[:])
				return cosi
			}
			b.cosi[0], b.cosi[1] = build(ps[len(ps)-1]), build(ps[0])
			if b.cosi[0] != nil && b.cosi[1] != nil && b.cosi[0].Mask != b.cosi[1].Mask {
				for k := 0; k < 2; k++ {
					sc, _ := b.cosi[k].Challenge(inj.publicKeys(), s.Hash)
					copy(b.scalar[k][:], sc.Bytes())
				}
				c.AddMonitor(b)
				send := func(k int) {
					for _, p := range b.cosi[k].Keys() {
						if p == b.pos {
							continue
						}
						n := c.Nodes[inj.order[p]]
						c.Inject(leader, n, buildFullChallenge(s, b.cosi[k], own, *b.commits[p], []*common.VersionedTransaction{draft.tx}), rng.Dur(0, 30*time.Millisecond))
					}
				}
				order := []int{0, 1}
				if rng.Chance(0.5) {
					order = []int{1, 0}
				}
				send(order[0])
				c.Run(c.Q.Now + 3*time.Second)
				c.Run(c.Q.Now + 62*time.Second + rng.Dur(0, 20*time.Second))
				send(order[1])
				c.Run(c.Q.Now + 3*time.Second)
				c.Run(c.Q.Now + 62*time.Second)
				send(order[0]) // the first challenge again: an identical retry
				c.Run(c.Q.Now + 3*time.Second)
				b.snap = nil
				r.out.Faults["byz.leader_equivocates_full_challenge"]++
				r.out.Probes["full_challenge_responses_to_challenge_1"] += len(b.answers[0])
				r.out.Probes["full_challenge_responses_to_challenge_2"] += len(b.answers[1])
				r.out.Probes["full_challenge_identical_retries"] += b.identical
				for _, pos := range b.cosi[0].Keys() {
					for _, q := range b.cosi[1].Keys() {
						if pos == q && pos != b.pos {
							bothMasks++
						}
					}
				}
				equivocations++
			}
		}
	}
	r.out.Probes["wire_members_in_both_masks"] += bothMasks
	relabelPanic(r, "C12")
	return r.finish(equivocations > 0 && bothMasks > 0, map[string]any{"mode": "wire", "equivocations": equivocations, "members_in_both_masks": bothMasks})
}
