package props

import (
	"fmt"
	"time"

	"verifsim/core"
	"verifsim/harness"
	"verifsim/storerig"

	"github.com/MixinNetwork/mixin/common"
	"github.com/MixinNetwork/mixin/crypto"
)

// C35 — local topology order is a strictly increasing unique cursor.
//
// R3 part: finalized snapshot writes on several chains with positions chosen
// by the rig (mostly +1, sometimes gaps), listing queries with random cursor
// and count (> 500 must be refused), look-ups by hash, restarts. Oracle: an
// ordered list model. The kernel-side assignment (seq+1 per write, reloaded
// after restart) is checked by the cluster monitor registered for C35 in
// cluster-based runs (see c35cluster.go).

type c35Entry struct {
	pos  uint64
	hash crypto.Hash
	txs  []crypto.Hash
}

func c35Gen(rng *core.Rng, tier string) *harness.Plan {
	if rng.Chance(0.12) {
		return c35ClusterGen(rng, tier)
	}
	p := &harness.Plan{Seed: rng.Uint64(), Params: map[string]int64{}}
	n := 30 + rng.IntN(100)
	if tier == "thorough" {
		n = 100 + rng.IntN(700)
	}
	if rng.Chance(0.3) {
		p.Params["bulk"] = int64(90 + rng.IntN(230)) // a long index: listings spanning hundreds of positions
	}
	w := []int{3 + rng.IntN(6), 2 + rng.IntN(6), 1 + rng.IntN(4), 1, rng.IntN(2), 1 + rng.IntN(4)}
	kinds := []string{"write", "list", "lookup", "last", "restart", "listtx"}
	for i := 0; i < n; i++ {
		k := kinds[weighted(rng, w)]
		op := harness.Op{Kind: k}
		switch k {
		case "write":
			op.N = rng.IntN(7)
			op.A = 1
			if rng.Chance(0.15) {
				op.A = int64(2 + rng.IntN(5)) // gap
			}
			op.B = int64(1 + rng.IntN(3)) // transactions in the snapshot
			if rng.Chance(0.3) {
				op.C = 1 // looked up by hash right before it is stored (must be absent), and again later
			}
		case "list", "listtx":
			op.A = int64(rng.IntN(40)) // offset selector
			op.B = int64(rng.IntN(12))
			if rng.Chance(0.1) {
				op.B = int64(495 + rng.IntN(12)) // around the 500 limit
			}
			if rng.Chance(0.1) {
				op.A = -1 // beyond the end
			}
		case "lookup":
			op.A = int64(rng.IntN(1000))
		}
		p.Ops = append(p.Ops, op)
	}
	return p
}

func c35Exec(p *harness.Plan) *harness.Outcome {
	if p.P("rig", 0) == 1 {
		return c35ClusterExec(p)
	}
	c := newCtx("C35")
	f, err := storerig.NewFix(7)
	if err != nil {
		return c.tool(err)
	}
	defer f.Close()
	// model: genesis entries
	var model []c35Entry
	snaps, err := f.Store.ReadSnapshotsSinceTopology(0, 100)
	if err != nil {
		return c.tool(err)
	}
	for _, s := range snaps {
		model = append(model, c35Entry{s.TopologicalOrder, s.PayloadHash(), s.Transactions})
	}
	ts := f.BaseTime()
	depN := 0
	writes, lists := 0, 0
	ops := p.Ops
	if bulk := int(p.P("bulk", 0)); bulk > 0 {
		pre := make([]harness.Op, 0, bulk+len(ops))
		for k := 0; k < bulk; k++ {
			pre = append(pre, harness.Op{Kind: "write", N: k % 7, A: 1, B: 1, C: int64((k + 1) % 2)})
		}
		ops = append(pre, ops...)
	}
	for i, op := range ops {
		switch op.Kind {
		case "write":
			var txs []*common.VersionedTransaction
			for k := int64(0); k < op.B; k++ {
				depN++
				tx := f.MakeDeposit(common.BitcoinAssetId, common.BitcoinAssetId, "c6d0c728", common.NewInteger(1), fmt.Sprintf("c35-%d", depN), 0, 0)
				if err := f.Admit(tx, false); err != nil {
					return c.tool(fmt.Errorf("admit: %w", err))
				}
				txs = append(txs, tx)
			}
			f.NextTopo += uint64(op.A - 1)
			ts += uint64(time.Millisecond)
			hs := make([]crypto.Hash, len(txs))
			for k, t := range txs {
				hs[k] = t.PayloadHash()
			}
			snap := f.Snapshot(op.N, ts, hs)
			if op.C == 1 {
				// somebody asks for it before this node has it
				early, err := f.Store.ReadSnapshot(snap.PayloadHash())
				c.out.Evals++
				c.out.Probes["lookup_before_stored"]++
				if err != nil || early != nil {
					return c.viol("lookup-of-unstored-snapshot", "op %d: look-up of a snapshot that is not stored returned %v, %v", i, early != nil, err)
				}
			}
			err := f.Store.WriteSnapshot(snap, []crypto.Hash{f.NodeIds[op.N]})
			if err == nil {
				f.NextTopo++
			}
			c.logf("write n%d pos=%d err=%v", op.N, snap.TopologicalOrder, err != nil)
			if err != nil {
				return c.viol("write-error", "op %d: WriteSnapshot failed: %v", i, err)
			}
			last := model[len(model)-1]
			if snap.TopologicalOrder <= last.pos {
				return c.tool(fmt.Errorf("rig bug: non-increasing position"))
			}
			model = append(model, c35Entry{snap.TopologicalOrder, snap.PayloadHash(), snap.Transactions})
			writes++
			if op.C == 1 {
				late, err := f.Store.ReadSnapshot(snap.PayloadHash())
				c.out.Evals++
				if err != nil || late == nil {
					return c.viol("lookup-missing", "op %d: snapshot %s stored at position %d is not found by hash (it was looked up once before it was stored): %v", i, snap.PayloadHash(), snap.TopologicalOrder, err)
				}
				if late.TopologicalOrder != snap.TopologicalOrder {
					return c.viol("lookup-position", "op %d: look-up gives %d, assigned %d", i, late.TopologicalOrder, snap.TopologicalOrder)
				}
			}
		case "list":
			var offset uint64
			if op.A < 0 {
				offset = model[len(model)-1].pos + 1 + uint64(i%3)
			} else {
				offset = uint64(op.A) * (model[len(model)-1].pos + 2) / 40
			}
			count := uint64(op.B)
			got, err := f.Store.ReadSnapshotsSinceTopology(offset, count)
			c.out.Evals++
			lists++
			if count > 500 {
				c.out.Probes["over_limit_query"]++
				if err == nil {
					return c.viol("limit-not-enforced", "op %d: listing with count %d was served", i, count)
				}
				c.logf("list off=%d count=%d refused", offset, count)
				continue
			}
			if err != nil {
				return c.viol("list-error", "op %d: %v", i, err)
			}
			var want []c35Entry
			for _, e := range model {
				if e.pos >= offset && uint64(len(want)) < count {
					want = append(want, e)
				}
			}
			c.logf("list off=%d count=%d -> %d", offset, count, len(got))
			if len(got) != len(want) {
				return c.viol("list-length", "op %d: listing from %d count %d returned %d entries, model %d", i, offset, count, len(got), len(want))
			}
			for j, s := range got {
				if s.TopologicalOrder != want[j].pos {
					return c.viol("list-order", "op %d: entry %d has position %d, model %d", i, j, s.TopologicalOrder, want[j].pos)
				}
				if s.PayloadHash() != want[j].hash || s.Hash != want[j].hash {
					return c.viol("list-hash", "op %d: entry %d at position %d has hash %s, model %s", i, j, s.TopologicalOrder, s.PayloadHash(), want[j].hash)
				}
				if j > 0 && got[j-1].TopologicalOrder >= s.TopologicalOrder {
					return c.viol("list-not-increasing", "op %d", i)
				}
			}
			if len(got) > 0 {
				c.out.Probes["nonempty_list"]++
			}
		case "listtx":
			var offset uint64
			if op.A < 0 {
				offset = model[len(model)-1].pos + 1 + uint64(i%3)
			} else {
				offset = uint64(op.A) * (model[len(model)-1].pos + 2) / 40
			}
			count := uint64(op.B)
			if count > 12 && count <= 500 {
				count = 101 + uint64(op.A*37+op.B)%400 // several hundred at once
			}
			got, gtx, err := f.Store.ReadSnapshotWithTransactionsSinceTopology(offset, count)
			c.out.Evals++
			lists++
			if count > 500 {
				if err == nil {
					return c.viol("limit-not-enforced", "op %d: listing with transactions, count %d was served", i, count)
				}
				continue
			}
			if err != nil {
				return c.viol("list-error", "op %d: %v", i, err)
			}
			var want []c35Entry
			for _, e := range model {
				if e.pos >= offset && uint64(len(want)) < count {
					want = append(want, e)
				}
			}
			c.logf("listtx off=%d count=%d -> %d", offset, count, len(got))
			if len(got) != len(want) || len(gtx) != len(got) {
				return c.viol("list-length", "op %d: listing with transactions from %d count %d returned %d entries (%d transaction lists), model %d", i, offset, count, len(got), len(gtx), len(want))
			}
			if len(got) > 100 {
				c.out.Probes["listing_with_transactions_over_100"]++
			}
			for j, s := range got {
				if s.TopologicalOrder != want[j].pos || s.PayloadHash() != want[j].hash {
					return c.viol("list-order", "op %d: entry %d of the listing with transactions is position %d, model %d", i, j, s.TopologicalOrder, want[j].pos)
				}
				if len(gtx[j]) != len(want[j].txs) {
					return c.viol("list-transactions", "op %d: entry %d lists %d transactions, snapshot has %d", i, j, len(gtx[j]), len(want[j].txs))
				}
				for k, t := range gtx[j] {
					if t == nil || t.PayloadHash() != want[j].txs[k] {
						return c.viol("list-transactions", "op %d: entry %d transaction %d differs", i, j, k)
					}
				}
			}
		case "lookup":
			e := model[int(op.A)%len(model)]
			s, err := f.Store.ReadSnapshot(e.hash)
			c.out.Evals++
			if err != nil || s == nil {
				return c.viol("lookup-missing", "op %d: snapshot %s not found: %v", i, e.hash, err)
			}
			c.logf("lookup %s -> %d", e.hash.String()[:8], s.TopologicalOrder)
			if s.TopologicalOrder != e.pos {
				return c.viol("lookup-position", "op %d: look-up of %s gives position %d, listing gives %d", i, e.hash, s.TopologicalOrder, e.pos)
			}
			if s.PayloadHash() != e.hash {
				return c.viol("lookup-hash", "op %d", i)
			}
		case "last":
			s, _ := f.Store.LastSnapshot()
			c.out.Evals++
			e := model[len(model)-1]
			c.logf("last -> %d", s.TopologicalOrder)
			if s.TopologicalOrder != e.pos || s.PayloadHash() != e.hash {
				return c.viol("last-mismatch", "op %d: last snapshot position %d hash %s, model %d %s", i, s.TopologicalOrder, s.PayloadHash(), e.pos, e.hash)
			}
		case "restart":
			if err := f.Reopen(false); err != nil {
				return c.tool(err)
			}
			c.out.Faults["restart"]++
			c.logf("restart")
		}
	}
	return c.done(writes > 0 && lists > 0, map[string]any{"writes": writes, "lists": lists, "entries": len(model)})
}

func init() {
	harness.Register(&harness.Property{
		ID:    "C35",
		Level: "exploration",
		Rule: "seeded sequences of finalized snapshot writes (7 chains, 1-3 transactions, positions +1 or gaps), cursor listings with and without transaction bodies (random offset/count incl. around the 500 limit; 30% of the runs start with 90-320 stored snapshots and list hundreds at once), hash look-ups (also of a snapshot right before and right after it is stored), last-snapshot reads and restarts, compared with an ordered-list model; " +
			"about one run in eight is a cluster run (7-9 real nodes, bursts, network faults, crash at step and Store-call boundaries) in which the kernel's own counter assigns the positions while several chain loops finalize: every assigned position must exceed all earlier ones of that node across restarts, and paged cursor sweeps of every node's index (random page sizes) must be ascending, complete, and agree with the look-up by hash and with the counter (evidence probes cluster_*); non-trivial = at least one write and one listing; distinct = canonical-log digests",
		Components: mergeComponents(r3Components, clusterComponents),
		Assume:     append(append([]string{}, r3Assume...), clusterAssume...),
		Gen:        c35Gen,
		Exec:       c35Exec,
		QuickRuns:  300, ThoroughRuns: 6000,
		QuickWall: 40 * time.Second, ThoroughWall: 8 * time.Minute,
	})
}
