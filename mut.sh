#!/bin/bash
# usage: mut.sh <prop> <file> <sed-expr> ; applies a temporary mutation to /repo, runs the quick check, reverts
prop=$1; file=$2; expr=$3
cd /repo || exit 2
if ! git diff --quiet; then echo "repo dirty"; exit 2; fi
sed -i -E "$expr" "$file"
git diff --stat | tail -1
(cd /verif && ./check "$prop" --tier quick 2>&1 | grep -E "VIOLATION|KNOWN|runs=|tool|error" | head -8)
git checkout -- .
for f in /verif/replays/${prop}-*.json; do [ -f "$f" ] && jq -r .violation.signature "$f"; done | sort | uniq -c; rm -f /verif/replays/${prop}-*.json
git -C /verif checkout -- evidence 2>/dev/null
