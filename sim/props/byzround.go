package props

import (
	"time"

	"verifsim/cluster"

	"github.com/MixinNetwork/mixin/common"
	"github.com/MixinNetwork/mixin/crypto"
	"github.com/MixinNetwork/mixin/kernel"
	"github.com/MixinNetwork/mixin/p2p"
)

// byzRound is the proposer side of ONE collective signing round, run by the
// simulator with the proposer's key over the simulated transport against the
// real nodes (membership-rig variant of the driver in c26byz.go: the consensus
// key vector is the one the nodes themselves use at the snapshot's timestamp,
// and members that exist as keys only may contribute shares the simulator
// produces for them). It is a cluster monitor: it sees every frame a real node
// addresses to the proposer.
//
// What it reports: how many REAL nodes answered the announcement with a
// commitment and the challenge with a response, and whether the round reached a
// certificate. A proposal the rules forbid must get no answer from a real node.

type byzRound struct {
	cluster.BaseMonitor
	c        *cluster.Cluster
	m        *memRig
	leader   *memIdent
	vector   []*kernel.CNode
	publics  []*crypto.Key
	pos      map[crypto.Hash]int
	thresh   int
	snap     *common.Snapshot
	nonce    crypto.Key
	shadow   map[int]crypto.Key // nonces of key-only members the simulator signs for
	commits  map[int]*crypto.Key
	resps    map[int]*[32]byte
	cosi     *crypto.CosiSignature
	done     bool
	realC    int // commitments from real nodes
	realR    int // responses from real nodes
	final    *common.Snapshot
	finished bool
}

func (b *byzRound) OnSend(from, to *cluster.SNode, data []byte) [][]byte {
	if b.finished || b.snap == nil || to.Id != b.leader.id || from.Idx >= b.c.Cfg.Nodes {
		return nil
	}
	switch p2p.SimMessageType(data) {
	case p2p.PeerMessageTypeBatchSnapshotCommitment:
		msg, err := p2p.SimParse(data)
		if err != nil || msg.SnapshotHash != b.snap.Hash || b.cosi != nil {
			return nil
		}
		pos, ok := b.pos[from.Id]
		if !ok || b.commits[pos] != nil {
			return nil
		}
		R := msg.Commitment
		b.commits[pos] = &R
		b.realC++
		b.tryChallenge()
	case p2p.PeerMessageTypeBatchSnapshotResponse:
		msg, err := p2p.SimParse(data)
		if err != nil || msg.SnapshotHash != b.snap.Hash || b.cosi == nil || b.done {
			return nil
		}
		pos, ok := b.pos[from.Id]
		if !ok || b.commits[pos] == nil || b.resps[pos] != nil {
			return nil
		}
		resp := msg.Response
		b.resps[pos] = &resp
		b.realR++
		b.tryFinalize()
	}
	return nil
}

func (b *byzRound) tryChallenge() {
	if len(b.commits)+1+len(b.shadow) < b.thresh {
		return
	}
	set := map[int]*crypto.Key{}
	for k, v := range b.commits {
		set[k] = v
	}
	own := b.nonce.Public()
	set[b.pos[b.leader.id]] = &own
	for pos, n := range b.shadow {
		if len(set) >= b.thresh {
			break
		}
		R := n.Public()
		set[pos] = &R
	}
	if len(set) < b.thresh {
		return
	}
	cosi, err := crypto.CosiAggregateCommitment(set)
	if err != nil {
		return
	}
	priv := b.leader.signer.PrivateSpendKey
	mine, err := cosi.Response(&priv, &b.nonce, b.publics, b.snap.Hash)
	if err != nil {
		return
	}
	copy(cosi.Signature[32:], mine[:])
	b.cosi = cosi
	b.resps[b.pos[b.leader.id]] = mine
	for _, pos := range cosi.Keys() {
		if n, ok := b.shadow[pos]; ok {
			id := b.m.byPub[*b.publics[pos]]
			if id == nil {
				continue
			}
			p := id.signer.PrivateSpendKey
			n := n
			if r, err := cosi.Response(&p, &n, b.publics, b.snap.Hash); err == nil {
				b.resps[pos] = r
			}
		}
	}
	from := b.c.Nodes[b.leader.idx]
	for pos := range b.commits {
		for _, n := range b.c.Nodes[:b.c.Cfg.Nodes] {
			if p, ok := b.pos[n.Id]; ok && p == pos && n.Alive {
				b.c.Inject(from, n, buildTransactionChallenge(b.snap.Hash, cosi), 5*time.Millisecond)
			}
		}
	}
	b.tryFinalize()
}

func (b *byzRound) tryFinalize() {
	if b.cosi == nil || b.done || len(b.resps) < len(b.cosi.Keys()) {
		return
	}
	final := *b.cosi
	if err := final.AggregateResponse(b.publics, b.resps, b.snap.Hash, true); err != nil {
		return
	}
	s := copySnapshot(b.snap)
	s.Signature = &crypto.CosiSignature{Signature: final.Signature, Mask: final.Mask}
	b.final, b.done = s, true
	from := b.c.Nodes[b.leader.idx]
	for _, n := range b.c.Nodes[:b.c.Cfg.Nodes] {
		if n.Alive && n.Id != b.leader.id {
			b.c.Inject(from, n, buildFinalization(s), 5*time.Millisecond)
		}
	}
}

// proposeViaCosi lets `leader` (a member whose key the simulator uses; its
// real node, if it has one, is switched off for the duration) announce the
// snapshot to every real node and runs the signing round for `wait`. The
// snapshot must carry no signature. Transaction bodies are handed out first.
func (m *memRig) proposeViaCosi(leader *memIdent, s *common.Snapshot, txs []*common.VersionedTransaction, wait time.Duration) *byzRound {
	c := m.c
	ref := m.ref()
	if ref == nil {
		return nil
	}
	ch := ref.Node.SimChain(s.NodeId)
	if ch == nil {
		return nil
	}
	b := &byzRound{c: c, m: m, leader: leader, snap: s, pos: map[crypto.Hash]int{}, shadow: map[int]crypto.Key{}, commits: map[int]*crypto.Key{}, resps: map[int]*[32]byte{}}
	b.vector = ch.SimConsensusNodes(s.RoundNumber, s.Timestamp)
	for i, cn := range b.vector {
		b.pos[cn.IdForNetwork] = i
		k := cn.Signer.PublicSpendKey
		b.publics = append(b.publics, &k)
	}
	if _, ok := b.pos[leader.id]; !ok {
		return nil // the proposer is not part of the consensus at that instant: nothing to run
	}
	b.thresh = ref.Node.ConsensusThreshold(s.Timestamp, false)
	seed := make([]byte, 64)
	m.rng.Bytes(seed)
	b.nonce = crypto.NewKeyFromSeed(seed)
	for i, cn := range b.vector {
		if id := m.identOf(cn.IdForNetwork); id != nil && id.idx >= c.Cfg.Nodes && id != leader {
			m.rng.Bytes(seed)
			b.shadow[i] = crypto.NewKeyFromSeed(seed)
		}
	}
	var offNode *cluster.SNode
	if leader.idx < c.Cfg.Nodes && c.Nodes[leader.idx].Alive {
		offNode = c.Nodes[leader.idx]
		c.Crash(offNode, false)
	}
	c.AddMonitor(b)
	from := c.Nodes[leader.idx]
	for _, n := range c.Nodes[:c.Cfg.Nodes] {
		if !n.Alive || n.Id == leader.id {
			continue
		}
		c.Inject(from, n, buildTxBundle(txs, true), time.Duration(n.Idx)*time.Millisecond)
		c.Inject(from, n, buildAnnouncement(s, b.nonce.Public(), leader.signer.PrivateSpendKey), 15*time.Millisecond+time.Duration(n.Idx)*time.Millisecond)
	}
	c.Run(c.Q.Now + wait)
	b.finished = true
	if offNode != nil && !c.Halt {
		if err := c.Restart(offNode); err != nil {
			c.Violate("C22", "restart-failed", err.Error(), offNode)
		}
		c.Run(c.Q.Now + time.Second)
	}
	return b
}
