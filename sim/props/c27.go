package props

import (
	"fmt"
	"sort"
	"time"

	"verifsim/cluster"
	"verifsim/core"
	"verifsim/harness"
	"verifsim/storerig"

	"github.com/MixinNetwork/mixin/common"
	"github.com/MixinNetwork/mixin/crypto"
)

// C27 — membership follows the pledge/accept/cancel/remove lifecycle.
//
// R3: membership transitions (valid and invalid) are finalized through the
// real WriteSnapshot with strictly increasing snapshot timestamps and random
// restarts. The transitions are carried by transactions whose first output
// has the membership type and whose extra names (signer, payee); they are
// funded by a custodian deposit so that no unrelated ledger state is needed
// (the durable transition checks under test only look at the output type,
// the extra and the node history). Oracle: life-cycle automaton written from
// the property text; implementation accepts => model allows; the reported
// history and latest states equal the model; a rejected write changes
// nothing (full dump equality).

type c27Node struct {
	signer, payee crypto.Key
	state         string
	ts            uint64
	tx            crypto.Hash
}

func c27Gen(rng *core.Rng, tier string) *harness.Plan {
	p := &harness.Plan{Seed: rng.Uint64(), Params: map[string]int64{}}
	n := 15 + rng.IntN(50)
	if tier == "thorough" {
		n = 40 + rng.IntN(200)
	}
	p.Params["identities"] = int64(3 + rng.IntN(8))
	w := []int{3 + rng.IntN(4), 3 + rng.IntN(4), 1 + rng.IntN(3), 1 + rng.IntN(3), rng.IntN(2), 1}
	kinds := []string{"pledge", "accept", "cancel", "remove", "restart", "query"}
	for i := 0; i < n; i++ {
		op := harness.Op{Kind: kinds[weighted(rng, w)]}
		op.N = rng.IntN(int(p.Params["identities"]) + 7) // identity selector (incl. genesis nodes)
		op.M = rng.IntN(7)                               // chain that carries the snapshot
		op.A = int64(rng.IntN(100))                      // validity dice
		op.B = int64(rng.IntN(1000))                     // time advance selector
		p.Ops = append(p.Ops, op)
	}
	return p
}

func c27Exec(p *harness.Plan) *harness.Outcome {
	c := newCtx("C27")
	f, err := storerig.NewFix(7)
	if err != nil {
		return c.tool(err)
	}
	defer f.Close()
	identities := int(p.P("identities", 5))
	type ident struct{ signer, payee common.Address }
	var ids []ident
	for i := 0; i < 7; i++ {
		ids = append(ids, ident{f.Signers[i], f.Payees[i]})
	}
	for i := 0; i < identities; i++ {
		ids = append(ids, ident{cluster.Account(7, 100+i, "SIGNER"), cluster.Account(7, 100+i, "PAYEE")})
	}
	// model: history of states in order of finalization
	var history []*c27Node
	latest := map[crypto.Key]*c27Node{}
	for _, n := range f.Store.ReadAllNodes(^uint64(0)>>1, true) {
		m := &c27Node{signer: n.Signer.PublicSpendKey, payee: n.Payee.PublicSpendKey, state: n.State, ts: n.Timestamp, tx: n.Transaction}
		history = append(history, m)
		latest[m.signer] = m
	}
	pledging := func() *c27Node {
		for _, n := range latest {
			if n.state == common.NodeStatePledging {
				return n
			}
		}
		return nil
	}
	ts := f.BaseTime()
	seq := 0
	accepted, rejected, validAccepted := 0, 0, 0
	for i, op := range p.Ops {
		switch op.Kind {
		case "restart":
			if err := f.Reopen(false); err != nil {
				return c.tool(err)
			}
			c.out.Faults["restart"]++
			c.logf("restart")
			continue
		case "query":
		default:
			id := ids[op.N%len(ids)]
			signer, payee := id.signer.PublicSpendKey, id.payee.PublicSpendKey
			// bias towards the identity the model says is actionable
			if op.A < 60 {
				switch op.Kind {
				case "accept", "cancel":
					if pl := pledging(); pl != nil {
						signer, payee = pl.signer, pl.payee
					}
				case "remove":
					var acc []*c27Node
					for _, n := range latest {
						if n.state == common.NodeStateAccepted {
							acc = append(acc, n)
						}
					}
					if len(acc) > 0 {
						sort.Slice(acc, func(a, b int) bool {
							return acc[a].ts < acc[b].ts || (acc[a].ts == acc[b].ts && acc[a].signer.String() < acc[b].signer.String())
						})
						n := acc[op.N%len(acc)]
						signer, payee = n.signer, n.payee
					}
				}
			}
			// a second removal of an already removed node, stamped shortly BEFORE the first one (the model goes
			// by what is recorded, whatever the stamp: the node is not currently accepted)
			var backTs uint64
			if op.Kind == "remove" && op.A >= 60 && op.A < 72 {
				var gone []*c27Node
				for _, n := range latest {
					if n.state == common.NodeStateRemoved {
						gone = append(gone, n)
					}
				}
				sort.Slice(gone, func(a, b int) bool { return gone[a].signer.String() < gone[b].signer.String() })
				if len(gone) > 0 {
					n := gone[op.N%len(gone)]
					var acceptedAt uint64
					for _, h := range history {
						if h.signer == n.signer && h.state == common.NodeStateAccepted {
							acceptedAt = h.ts
						}
					}
					if n.ts > acceptedAt+2*uint64(time.Second) {
						signer, payee = n.signer, n.payee
						backTs = n.ts - uint64(time.Second)
						c.out.Probes["backdated_second_removal"]++
					}
				}
			}
			if op.A >= 85 { // wrong payee
				payee = ids[(op.N+1)%len(ids)].payee.PublicSpendKey
			}
			var typ uint8
			switch op.Kind {
			case "pledge":
				typ = common.OutputTypeNodePledge
			case "accept":
				typ = common.OutputTypeNodeAccept
			case "cancel":
				typ = common.OutputTypeNodeCancel
			case "remove":
				typ = common.OutputTypeNodeRemove
			}
			// model decision (from the property text)
			cur := latest[signer]
			pl := pledging()
			allowed := false
			switch op.Kind {
			case "pledge":
				allowed = cur == nil && pl == nil
			case "accept", "cancel":
				allowed = pl != nil && pl.signer == signer && pl.payee == payee
			case "remove":
				allowed = cur != nil && cur.state == common.NodeStateAccepted && cur.payee == payee
			}
			// build and admit the carrier transaction
			seq++
			tx := common.NewTransactionV5(common.XINAssetId)
			tx.AddDepositInput(&common.DepositData{Chain: common.XINAsset.Chain, AssetKey: common.XINAsset.AssetKey, Transaction: fmt.Sprintf("c27-%d", seq), Index: 0, Amount: common.NewInteger(1)})
			if typ == common.OutputTypeNodeRemove {
				sh := crypto.Blake3Hash([]byte(fmt.Sprintf("c27seed%d", seq)))
				tx.AddOutputWithType(typ, []*common.Address{&id.payee}, common.NewThresholdScript(1), common.NewInteger(1), append(sh[:], sh[:]...))
			} else {
				tx.AddOutputWithType(typ, nil, common.Script{}, common.NewInteger(1), nil)
			}
			tx.Extra = append(append([]byte{}, signer[:]...), payee[:]...)
			ver := tx.AsVersioned()
			if err := f.Admit(ver, false); err != nil {
				return c.tool(fmt.Errorf("admit carrier: %w", err))
			}
			switch {
			case op.B < 700:
				ts += uint64(1+op.B) * uint64(time.Second)
			case op.B < 900:
				ts += uint64(12*time.Hour) + uint64(op.B)
			default:
				ts += uint64(op.B-899) * uint64(time.Nanosecond)
			}
			before := f.Dump()
			var werr error
			useTs := ts
			if backTs > 0 {
				useTs = backTs
			}
			if g := c.guard("finalize-panic", func() {
				_, werr = f.Finalize(op.M%7, useTs, []*common.VersionedTransaction{ver}, nil)
			}); g != nil {
				return g
			}
			c.out.Evals++
			c.logf("%s %s payee=%s allowed=%v err=%v", op.Kind, signer.String()[:8], payee.String()[:8], allowed, werr != nil)
			if werr == nil {
				accepted++
				if !allowed {
					return c.viol("invalid-transition-accepted:"+op.Kind, "op %d: %s of signer %s (current %v, pledging %v) was recorded although the life cycle forbids it", i, op.Kind, signer.String()[:8], stateOf(cur), pl != nil)
				}
				validAccepted++
				st := map[string]string{"pledge": common.NodeStatePledging, "accept": common.NodeStateAccepted, "cancel": common.NodeStateCancelled, "remove": common.NodeStateRemoved}[op.Kind]
				m := &c27Node{signer: signer, payee: payee, state: st, ts: ts, tx: ver.PayloadHash()}
				history = append(history, m)
				latest[signer] = m
				c.out.Probes["ok_"+op.Kind]++
			} else {
				rejected++
				if allowed {
					c.out.Probes["valid_rejected_"+op.Kind]++
				} else {
					c.out.Probes["invalid_rejected_"+op.Kind]++
				}
				after := f.Dump()
				a, r, ch := storerig.DiffDumps(before, after)
				if len(a)+len(r)+len(ch) > 0 {
					return c.viol("rejected-write-changed-state", "op %d: rejected %s changed the database: +%v -%v ~%v", i, op.Kind, storerig.CountByPrefix(a), storerig.CountByPrefix(r), storerig.CountByPrefix(ch))
				}
			}
		}
		// reported history and latest states equal the model
		got := f.Store.ReadAllNodes(^uint64(0)>>1, true)
		if len(got) != len(history) {
			return c.viol("history-length", "op %d: history has %d records, model %d", i, len(got), len(history))
		}
		seen := map[crypto.Key]int{}
		for j, n := range got {
			m := history[j]
			if n.Signer.PublicSpendKey != m.signer || n.Payee.PublicSpendKey != m.payee || n.State != m.state || n.Timestamp != m.ts || n.Transaction != m.tx {
				// equal timestamps may be listed in key order; compare as multiset per timestamp
				if !c27SameAt(got, history, m.ts) {
					return c.viol("history-mismatch", "op %d: record %d is (%s,%s,%d), model (%s,%s,%d)", i, j, n.Signer.PublicSpendKey.String()[:8], n.State, n.Timestamp, m.signer.String()[:8], m.state, m.ts)
				}
			}
			if n.State == common.NodeStatePledging {
				seen[n.Signer.PublicSpendKey]++
				if seen[n.Signer.PublicSpendKey] > 1 {
					return c.viol("signer-key-repeated", "op %d: signer %s pledged twice", i, n.Signer.PublicSpendKey.String()[:8])
				}
			}
		}
		for _, n := range f.Store.ReadAllNodes(^uint64(0)>>1, false) {
			m := latest[n.Signer.PublicSpendKey]
			if m == nil || m.state != n.State || m.ts != n.Timestamp {
				return c.viol("latest-state-mismatch", "op %d: node %s reported %s@%d, model %v", i, n.Signer.PublicSpendKey.String()[:8], n.State, n.Timestamp, stateOf(m))
			}
		}
	}
	return c.done(validAccepted > 0 && rejected > 0, map[string]any{"recorded": accepted, "rejected": rejected, "history": len(history)})
}

func c27SameAt(got []*common.Node, model []*c27Node, ts uint64) bool {
	var a, b []string
	for _, n := range got {
		if n.Timestamp == ts {
			a = append(a, n.Signer.PublicSpendKey.String()+n.State+n.Payee.PublicSpendKey.String()+n.Transaction.String())
		}
	}
	for _, m := range model {
		if m.ts == ts {
			b = append(b, m.signer.String()+m.state+m.payee.String()+m.tx.String())
		}
	}
	sort.Strings(a)
	sort.Strings(b)
	if len(a) != len(b) {
		return false
	}
	for i := range a {
		if a[i] != b[i] {
			return false
		}
	}
	return true
}

func stateOf(n *c27Node) string {
	if n == nil {
		return "none"
	}
	return n.state
}

func init() {
	harness.Register(&harness.Property{
		ID:    "C27",
		Level: "exploration",
		Rule: "seeded sequences of pledge/accept/cancel/remove attempts (about half model-valid, the rest: second pledger, reused signer key, wrong signer or payee, accept/cancel with nobody pledging, remove of non-accepted) finalized through the real WriteSnapshot with strictly increasing timestamps (seconds, >12h jumps, nanosecond steps) and restarts, plus second removals of an already removed node stamped one second before the recorded removal (the only back-dated operations: they must be refused whatever the stamp); " +
			"non-trivial = at least one valid transition recorded and one rejected; distinct = canonical-log digests",
		Components: r3Components,
		Assume:     append([]string{"membership snapshots are finalized in strictly increasing timestamp order (C28)"}, r3Assume...),
		Gen:        c27Gen,
		Exec:       c27Exec,
		QuickRuns:  300, ThoroughRuns: 6000,
		QuickWall: 40 * time.Second, ThoroughWall: 8 * time.Minute,
	})
}
