package props

import (
	"fmt"
	"time"

	"verifsim/cluster"
	"verifsim/core"
	"verifsim/harness"

	"github.com/MixinNetwork/mixin/crypto"
)

// C35, cluster part: the positions are assigned by the kernel itself
// (TopoCounter) while several chain loops of one node finalize concurrently,
// under network faults and crash/restart (the counter is reloaded from the
// durable index). Monitor on every successful WriteSnapshot of every node:
// the position is strictly larger than every position the node assigned
// before (across restarts) and the hash is new. Final sweep per node: the
// cursor listing in pages of random size is ascending, starts at the cursor,
// each entry carries its own position and payload hash, the look-up by hash
// returns the same position, and the sweep covers exactly the writes seen.

type c35Mon struct {
	cluster.BaseMonitor
	r       *crun
	last    map[int]uint64
	started map[int]bool
	pos     map[int]map[crypto.Hash]uint64
	writes  int
	after   int // writes observed after a restart of that node
	gen     map[int]int
	nesting bool
	nested  int
}

// BeforeStore: when a snapshot is about to be stored while the node's
// sequence lock is free, other chain loops of the same node could run at
// this very point; the simulator lets them (nested stepping at the Store-call
// boundary). With the lock held this interleaving does not exist.
func (m *c35Mon) BeforeStore(n *cluster.SNode, call *cluster.StoreCall) {
	if call.Name != "WriteSnapshot" || m.nesting || n.Node == nil || !n.Node.SimTopoUnlocked() {
		return
	}
	snap := snapArg(call)
	var others []crypto.Hash
	for _, id := range n.Node.SimChainIDs() {
		if id != snap.NodeId {
			others = append(others, id)
		}
	}
	m.nesting = true
	m.nested += m.r.c.PollChainsNested(n, others)
	m.nesting = false
}

func (m *c35Mon) AfterStore(n *cluster.SNode, call *cluster.StoreCall) {
	if call.Name != "WriteSnapshot" || call.Err != nil {
		return
	}
	snap := snapArg(call)
	c := m.r.c
	h := snap.PayloadHash()
	if m.pos[n.Idx] == nil {
		m.pos[n.Idx] = map[crypto.Hash]uint64{}
	}
	if old, dup := m.pos[n.Idx][h]; dup {
		c.Violate("C35", "snapshot-stored-at-two-positions", fmt.Sprintf("n%d snapshot %s written at %d and again at %d", n.Idx, h.String()[:8], old, snap.TopologicalOrder), n)
		return
	}
	if m.started[n.Idx] && snap.TopologicalOrder <= m.last[n.Idx] {
		c.Violate("C35", "assigned-position-not-increasing", fmt.Sprintf("n%d assigned position %d after %d", n.Idx, snap.TopologicalOrder, m.last[n.Idx]), n)
		return
	}
	m.started[n.Idx] = true
	m.last[n.Idx] = snap.TopologicalOrder
	m.pos[n.Idx][h] = snap.TopologicalOrder
	m.writes++
	if n.Gen > m.gen[n.Idx] {
		m.after++
		m.gen[n.Idx] = n.Gen
	}
}

func (m *c35Mon) sweep(rng *core.Rng) int {
	c := m.r.c
	checked := 0
	for _, n := range c.AliveNodes() {
		seen := map[crypto.Hash]bool{}
		cursor := uint64(0)
		var prev uint64
		first := true
		for {
			count := uint64(1 + rng.IntN(500))
			page, err := n.Store.ReadSnapshotsSinceTopology(cursor, count)
			if err != nil {
				c.Violate("C35", "listing-failed", fmt.Sprintf("n%d cursor %d count %d: %v", n.Idx, cursor, count, err), n)
				return checked
			}
			if len(page) == 0 {
				break
			}
			if uint64(len(page)) > count {
				c.Violate("C35", "listing-longer-than-count", fmt.Sprintf("n%d cursor %d count %d returned %d", n.Idx, cursor, count, len(page)), n)
				return checked
			}
			for _, s := range page {
				checked++
				if s.TopologicalOrder < cursor || (!first && s.TopologicalOrder <= prev) {
					c.Violate("C35", "listing-not-ascending-from-cursor", fmt.Sprintf("n%d cursor %d: position %d after %d", n.Idx, cursor, s.TopologicalOrder, prev), n)
					return checked
				}
				first, prev = false, s.TopologicalOrder
				h := s.PayloadHash()
				if seen[h] {
					c.Violate("C35", "snapshot-listed-twice", fmt.Sprintf("n%d snapshot %s", n.Idx, h.String()[:8]), n)
					return checked
				}
				seen[h] = true
				if s.Hash.HasValue() && s.Hash != h {
					c.Violate("C35", "listed-hash-differs-from-payload", fmt.Sprintf("n%d position %d", n.Idx, s.TopologicalOrder), n)
					return checked
				}
				if want, ok := m.pos[n.Idx][h]; ok && want != s.TopologicalOrder {
					c.Violate("C35", "listed-position-differs-from-assigned", fmt.Sprintf("n%d snapshot %s listed at %d, assigned %d", n.Idx, h.String()[:8], s.TopologicalOrder, want), n)
					return checked
				}
				byHash, err := n.Store.ReadSnapshot(h)
				if err != nil || byHash == nil || byHash.TopologicalOrder != s.TopologicalOrder {
					c.Violate("C35", "lookup-position-differs-from-listing", fmt.Sprintf("n%d snapshot %s listed at %d, look-up %v (%v)", n.Idx, h.String()[:8], s.TopologicalOrder, byHash, err), n)
					return checked
				}
			}
			cursor = prev + 1
		}
		for h, p := range m.pos[n.Idx] {
			if !seen[h] {
				c.Violate("C35", "written-snapshot-missing-from-listing", fmt.Sprintf("n%d snapshot %s assigned %d", n.Idx, h.String()[:8], p), n)
				return checked
			}
		}
		if seq := n.Node.SimTopoSeq(); !first && seq != prev {
			c.Violate("C35", "counter-differs-from-last-position", fmt.Sprintf("n%d counter %d, last listed position %d", n.Idx, seq, prev), n)
			return checked
		}
	}
	return checked
}

func c35ClusterGen(rng *core.Rng, tier string) *harness.Plan {
	p := c18Gen(rng, tier)
	p.Params["rig"] = 1
	for i := 0; i < 1+rng.IntN(3); i++ {
		dur := time.Duration(p.P("dur_ms", 40000)) * time.Millisecond
		p.Ops = append(p.Ops, harness.Op{At: int64(rng.Dur(5*time.Second, dur) / time.Microsecond), Kind: "crashcall", N: rng.IntN(9), A: int64(1 + rng.IntN(60)), B: int64(rng.IntN(2)), C: int64(300 + rng.IntN(3000))})
	}
	sortOps(p)
	return p
}

func c35ClusterExec(p *harness.Plan) *harness.Outcome {
	r, err := newClusterRun("C35", p)
	if err != nil {
		o := harness.NewOutcome()
		o.ToolError = err.Error()
		return o
	}
	defer r.c.Close()
	mon := &c35Mon{r: r, last: map[int]uint64{}, started: map[int]bool{}, pos: map[int]map[crypto.Hash]uint64{}, gen: map[int]int{}}
	r.c.AddMonitor(mon)
	rng := core.NewRng(core.SplitMix64(p.Seed ^ 0x35))
	checked := 0
	r.extra["checkpoint"] = func(harness.Op, int) { checked += mon.sweep(rng) }
	if err := r.c.Boot(); err != nil {
		r.out.ToolError = err.Error()
		return r.out
	}
	r.schedule()
	r.c.Run(time.Duration(p.P("dur_ms", 40000)) * time.Millisecond)
	if !r.c.Halt {
		r.settle(60*time.Second, true)
	}
	if !r.c.Halt {
		checked += mon.sweep(rng)
	}
	r.out.Evals += mon.writes + checked
	r.out.Probes["cluster_positions_assigned"] += mon.writes
	r.out.Probes["cluster_positions_assigned_after_restart"] += mon.after
	r.out.Probes["cluster_listed_entries_checked"] += checked
	r.out.Probes["cluster_writes_outside_sequence_lock_interleaved"] += mon.nested
	relabelPanic(r, "C35")
	return r.finish(mon.writes > 0 && checked > 0, map[string]any{"rig": "cluster", "writes": mon.writes, "after_restart": mon.after, "listed": checked})
}
