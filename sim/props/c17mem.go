package props

import (
	"verifsim/core"
	"verifsim/harness"
)

// C17, consensus operations and mint (membership rig). The cluster part of
// C17 sees deposits, transfers and withdrawals. Supply also moves with the
// universal mint, and outputs of other kinds (pledge, accept, removal,
// custodian update) hold value too. Here the ledger monitor of C17 watches a
// long-horizon membership history — pledges funded by XIN deposits,
// acceptances, removals, custodian updates paid in XIN and universal mints —
// on every node: after every finalization the recorded total must equal
// genesis + deposits + mints - withdrawal submissions, and after every
// operation and every restart it must equal the sum of outputs not consumed by
// a finalized transaction (full scan), within [0, capacity].

func c17MemGen(rng *core.Rng, tier string, p *harness.Plan) {
	q := memGen("C17")(rng, tier)
	p.Params, p.Ops = q.Params, q.Ops
	p.Params["mem"] = 1
	if p.Params["start_s"] < 1707*86400 {
		p.Params["start_s"] += int64(1708+rng.IntN(1000)) * 86400 // late enough for the universal mint
	}
	p.Ops = append([]harness.Op{{Kind: "mem.mint", S: "mint0"}}, p.Ops...)
	if rng.Chance(0.5) {
		p.Ops = append(p.Ops, harness.Op{Kind: "mem.mint", S: "mint1"})
	}
}

func c17MemExec(p *harness.Plan) *harness.Outcome {
	var mon *ledgerMon
	r, m, fail := runMembership("C17", p, func(m *memRig, kind string) {
		for _, n := range m.c.Nodes[:m.c.Cfg.Nodes] {
			if !m.c.Halt {
				mon.scan(n)
			}
		}
	}, nil, func(r *crun) {
		mon = newLedgerMon(r, "C17")
		r.c.AddMonitor(mon)
	})
	if fail != nil {
		return fail
	}
	defer r.c.Close()
	r.out.Probes["snapshot_writes_checked"] += mon.writes
	r.out.Probes["output_scans"] += mon.scans
	relabelPanic(r, "C17")
	return r.finish(mon.writes > 0 && mon.scans > 0 && r.out.Probes["op_mem.mint"] > 0, map[string]any{"mode": "membership rig", "records": len(m.records), "writes": mon.writes, "scans": mon.scans, "mints": r.out.Probes["op_mem.mint"]})
}
