// instrument rewrites the storage package of the tree under test into a build
// overlay (go build -overlay) in which every acquisition of a store mutex and
// every Badger transaction boundary (begin, commit, Update, View) first calls
// storage.SimPoint(name). Nothing under the tree is modified: the rewritten
// copies live in the output directory and are substituted at compile time, so
// whatever the working tree contains — including a changed or added call — is
// what gets instrumented.
//
//	instrument -repo /repo -out /verif/.build/ov.123   → writes <out>/overlay.json
//
// Rewrites (X is any receiver expression):
//
//	X.Lock()             → simMutexLock(X, "lock:<Func>")       (only receivers whose last selector is "mutex")
//	X.RLock()            → simMutexRLock(X, "rlock:<Func>")
//	X.NewTransaction(b)  → simNewTransaction(X, b, "begin:<Func>")
//	X.Commit()           → simCommit(X, "commit:<Func>")
//	X.Update(f)          → simUpdate(X, f, "update:<Func>")      (receivers ending in "DB")
//	X.View(f)            → simView(X, f, "view:<Func>")
//
// With storage.SimPoint == nil the helpers are pass-throughs.
package main

import (
	"bytes"
	"crypto/sha256"
	"encoding/json"
	"flag"
	"fmt"
	"go/ast"
	"go/parser"
	"go/printer"
	"go/token"
	"os"
	"path/filepath"
	"sort"
	"strings"
	"time"
)

const helpers = `package storage

import (
	"sync"

	"github.com/dgraph-io/badger/v4"
)

// SimPoint is called at every store mutex acquisition and Badger transaction
// boundary of the instrumented build (see verifsim/cmd/instrument).
var SimPoint func(point string)

// SimCommits counts Badger commits attempted through the instrumented sites.
var SimCommits uint64

func simPoint(p string) {
	if SimPoint != nil {
		SimPoint(p)
	}
}

// The cooperative wait never holds the mutex itself: it yields until TryLock
// would succeed and releases again, so the caller's own Lock() that follows is
// the only thing providing mutual exclusion (exactly one task runs at a time).
func simMutexLock(m *sync.RWMutex, p string) {
	if SimPoint != nil {
		SimPoint(p)
		for !m.TryLock() {
			SimPoint(p + ".blocked")
		}
		m.Unlock()
	}
	m.Lock()
}

func simMutexRLock(m *sync.RWMutex, p string) {
	if SimPoint != nil {
		SimPoint(p)
		for !m.TryRLock() {
			SimPoint(p + ".blocked")
		}
		m.RUnlock()
	}
	m.RLock()
}

func simNewTransaction(db *badger.DB, update bool, p string) *badger.Txn {
	simPoint(p)
	return db.NewTransaction(update)
}

func simCommit(txn *badger.Txn, p string) error {
	simPoint(p)
	SimCommits++
	return txn.Commit()
}

func simUpdate(db *badger.DB, f func(txn *badger.Txn) error, p string) error {
	simPoint(p)
	return db.Update(func(txn *badger.Txn) error {
		err := f(txn)
		if err == nil {
			simPoint("commit:" + p[len("update:"):])
			SimCommits++
		}
		return err
	})
}

func simView(db *badger.DB, f func(txn *badger.Txn) error, p string) error {
	simPoint(p)
	return db.View(f)
}
`

func lastSel(e ast.Expr) string {
	switch x := e.(type) {
	case *ast.SelectorExpr:
		return x.Sel.Name
	case *ast.Ident:
		return x.Name
	}
	return ""
}

func lit(s string) ast.Expr { return &ast.BasicLit{Kind: token.STRING, Value: fmt.Sprintf("%q", s)} }

func main() {
	repo := flag.String("repo", "/repo", "tree under test")
	out := flag.String("out", "", "scratch output directory")
	final := flag.String("final", "", "final directory name; the substring HASH is replaced by the content hash (the scratch directory is renamed to it, or dropped when it already exists)")
	flag.Parse()
	if *out == "" {
		fmt.Fprintln(os.Stderr, "instrument: -out required")
		os.Exit(2)
	}
	dir := filepath.Join(*repo, "storage")
	ents, err := os.ReadDir(dir)
	if err != nil {
		fmt.Fprintln(os.Stderr, "instrument:", err)
		os.Exit(2)
	}
	os.MkdirAll(filepath.Join(*out, "storage"), 0755)
	replace := map[string]string{}
	sites := map[string]int{}
	hash := sha256.New()
	target := *out
	_ = target
	for _, e := range ents {
		name := e.Name()
		if !strings.HasSuffix(name, ".go") || strings.HasSuffix(name, "_test.go") || strings.HasPrefix(name, "sim_") {
			continue
		}
		src := filepath.Join(dir, name)
		fset := token.NewFileSet()
		f, err := parser.ParseFile(fset, src, nil, parser.ParseComments)
		if err != nil {
			fmt.Fprintln(os.Stderr, "instrument:", err)
			os.Exit(2)
		}
		changed := false
		for _, d := range f.Decls {
			fd, ok := d.(*ast.FuncDecl)
			if !ok || fd.Body == nil {
				continue
			}
			fn := fd.Name.Name
			ast.Inspect(fd.Body, func(n ast.Node) bool {
				call, ok := n.(*ast.CallExpr)
				if !ok {
					return true
				}
				sel, ok := call.Fun.(*ast.SelectorExpr)
				if !ok {
					return true
				}
				recv := sel.X
				rw := func(helper, kind string, args ...ast.Expr) {
					call.Fun = ast.NewIdent(helper)
					call.Args = append(args, lit(kind+":"+fn))
					sites[kind]++
					changed = true
				}
				switch {
				case sel.Sel.Name == "Lock" && len(call.Args) == 0 && lastSel(recv) == "mutex":
					rw("simMutexLock", "lock", recv)
				case sel.Sel.Name == "RLock" && len(call.Args) == 0 && lastSel(recv) == "mutex":
					rw("simMutexRLock", "rlock", recv)
				case sel.Sel.Name == "NewTransaction" && len(call.Args) == 1:
					rw("simNewTransaction", "begin", recv, call.Args[0])
				case sel.Sel.Name == "Commit" && len(call.Args) == 0:
					rw("simCommit", "commit", recv)
				case sel.Sel.Name == "Update" && len(call.Args) == 1 && strings.HasSuffix(lastSel(recv), "DB"):
					rw("simUpdate", "update", recv, call.Args[0])
				case sel.Sel.Name == "View" && len(call.Args) == 1 && strings.HasSuffix(lastSel(recv), "DB"):
					rw("simView", "view", recv, call.Args[0])
				}
				return true
			})
		}
		if !changed {
			continue
		}
		var buf bytes.Buffer
		if err := printer.Fprint(&buf, fset, f); err != nil {
			fmt.Fprintln(os.Stderr, "instrument:", err)
			os.Exit(2)
		}
		dst := filepath.Join(*out, "storage", name)
		if err := os.WriteFile(dst, buf.Bytes(), 0644); err != nil {
			fmt.Fprintln(os.Stderr, "instrument:", err)
			os.Exit(2)
		}
		fmt.Fprintf(hash, "%s %d\n", src, buf.Len())
		hash.Write(buf.Bytes())
		replace[src] = filepath.Join("storage", name)
	}
	hp := filepath.Join(*out, "storage", "zz_sim_instr.go")
	os.WriteFile(hp, []byte(helpers), 0644)
	hash.Write([]byte(helpers))
	replace[filepath.Join(dir, "zz_sim_instr.go")] = filepath.Join("storage", "zz_sim_instr.go")
	if *final != "" {
		target = strings.Replace(*final, "HASH", fmt.Sprintf("%x", hash.Sum(nil)[:10]), 1)
	}
	for k, v := range replace {
		replace[k] = filepath.Join(target, v)
	}
	b, _ := json.MarshalIndent(map[string]any{"Replace": replace}, "", " ")
	if err := os.WriteFile(filepath.Join(*out, "overlay.json"), b, 0644); err != nil {
		fmt.Fprintln(os.Stderr, "instrument:", err)
		os.Exit(2)
	}
	if target != *out {
		if _, err := os.Stat(filepath.Join(target, "overlay.json")); err != nil {
			if err := os.Rename(*out, target); err != nil {
				if _, err2 := os.Stat(filepath.Join(target, "overlay.json")); err2 != nil {
					fmt.Fprintln(os.Stderr, "instrument:", err)
					os.Exit(2)
				}
			}
		} else {
			now := time.Now()
			os.Chtimes(target, now, now)
		}
		os.RemoveAll(*out)
	}
	var ks []string
	for k := range sites {
		ks = append(ks, k)
	}
	sort.Strings(ks)
	for _, k := range ks {
		fmt.Printf("%s=%d ", k, sites[k])
	}
	fmt.Println()
	fmt.Println(target)
}
