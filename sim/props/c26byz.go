package props

import (
	"encoding/binary"
	"fmt"
	"time"

	"verifsim/cluster"
	"verifsim/core"
	"verifsim/harness"

	"github.com/MixinNetwork/mixin/common"
	"github.com/MixinNetwork/mixin/crypto"
	"github.com/MixinNetwork/mixin/p2p"
)

// C26, cluster part: work crediting of what the real consensus finalizes,
// including what ONE Byzantine member can get finalized.
//
// The work aggregator credits "one proposal credit to the proposer and one
// signing credit to every other signer" of each finalized snapshot. Whether
// that is possible for every finalized snapshot depends on what honest
// verifiers are willing to sign. Here one accepted member is Byzantine: the
// simulator (which holds its key) runs the leader side of the collective
// signing itself over the simulated transport — announcement, collection of
// the honest commitments, challenge, collection of the honest responses,
// finalization — for a snapshot on its own chain, and builds the signer mask
// from the honest commitments only, leaving itself out. Every other node is
// real and honest. Afterwards the chain advances (so the round matures) and the
// real work aggregators of every node run.
//
// Oracle: no node crashes in the aggregator or anywhere else (a crash here is
// in a loop without recovery, on every node, again after every restart), all
// nodes agree on whether the snapshot is final, and the valid history around it
// still converges. Whether the honest verifiers answer such a challenge at all
// is the implementation's choice and is not judged.

func buildTransactionChallenge(snap crypto.Hash, cosi *crypto.CosiSignature) []byte {
	data := []byte{p2p.PeerMessageTypeBatchTransactionChallenge}
	data = append(data, snap[:]...)
	data = append(data, cosi.Signature[:]...)
	data = binary.BigEndian.AppendUint64(data, cosi.Mask)
	return append(data, 0) // no transaction bodies attached
}

type byzLeader struct {
	cluster.BaseMonitor
	r           *crun
	inj         *injector
	leader      *cluster.SNode
	pos         int // consensus position of the leader
	omitSelf    bool
	snap        *common.Snapshot
	nonce       crypto.Key
	commitments map[int]*crypto.Key
	responses   map[int]*[32]byte
	cosi        *crypto.CosiSignature
	challenged  bool
	finalized   bool
	refusedBy   int
}

func (b *byzLeader) posOf(n *cluster.SNode) int {
	for pos, idx := range b.inj.order {
		if idx == n.Idx {
			return pos
		}
	}
	return -1
}

func (b *byzLeader) others() []*cluster.SNode {
	var out []*cluster.SNode
	for i := 0; i < b.inj.n; i++ {
		if n := b.r.c.Nodes[i]; n != b.leader {
			out = append(out, n)
		}
	}
	return out
}

// OnSend sees every frame an honest node addresses to the Byzantine leader.
func (b *byzLeader) OnSend(from, to *cluster.SNode, data []byte) [][]byte {
	if b.snap == nil || to != b.leader || b.finalized {
		return nil
	}
	c := b.r.c
	switch p2p.SimMessageType(data) {
	case p2p.PeerMessageTypeBatchSnapshotCommitment:
		msg, err := p2p.SimParse(data)
		if err != nil || msg.SnapshotHash != b.snap.Hash || b.challenged {
			return nil
		}
		pos := b.posOf(from)
		if pos < 0 || b.commitments[pos] != nil {
			return nil
		}
		R := msg.Commitment
		b.commitments[pos] = &R
		need := b.inj.threshold()
		if !b.omitSelf {
			need-- // the leader's own commitment counts
		}
		if len(b.commitments) < need {
			return nil
		}
		set := map[int]*crypto.Key{}
		for k, v := range b.commitments {
			set[k] = v
		}
		if !b.omitSelf {
			R := b.nonce.Public()
			set[b.pos] = &R
		}
		cosi, err := crypto.CosiAggregateCommitment(set)
		if err != nil {
			return nil
		}
		publics := b.inj.publicKeys()
		priv := b.leader.Signer.PrivateSpendKey
		own, err := cosi.Response(&priv, &b.nonce, publics, b.snap.Hash)
		if err != nil {
			return nil
		}
		// the challenge carries the leader's own share, which verifiers check against its announced commitment
		copy(cosi.Signature[32:], own[:])
		b.cosi = cosi
		if !b.omitSelf {
			b.responses[b.pos] = own
		}
		b.challenged = true
		for pos := range b.commitments {
			n := c.Nodes[b.inj.order[pos]]
			c.Inject(b.leader, n, buildTransactionChallenge(b.snap.Hash, cosi), 5*time.Millisecond)
		}
		c.Trace.Logf(c.Q.Now, "byz leader n%d challenges %d signers mask %b (own position %d included=%v)", b.leader.Idx, len(set), cosi.Mask, b.pos, !b.omitSelf)
	case p2p.PeerMessageTypeBatchSnapshotResponse:
		msg, err := p2p.SimParse(data)
		if err != nil || msg.SnapshotHash != b.snap.Hash || b.cosi == nil {
			return nil
		}
		pos := b.posOf(from)
		if pos < 0 || b.commitments[pos] == nil || b.responses[pos] != nil {
			return nil
		}
		resp := msg.Response
		b.responses[pos] = &resp
		if len(b.responses) < len(b.cosi.Keys()) {
			return nil
		}
		final := *b.cosi
		if err := final.AggregateResponse(b.inj.publicKeys(), b.responses, b.snap.Hash, true); err != nil {
			c.Trace.Logf(c.Q.Now, "byz leader aggregate failed: %v", err)
			return nil
		}
		s := copySnapshot(b.snap)
		s.Signature = &crypto.CosiSignature{Signature: final.Signature, Mask: final.Mask}
		b.snap = s
		b.finalized = true
		for _, n := range b.others() {
			c.Inject(b.leader, n, buildFinalization(s), 5*time.Millisecond)
		}
		c.Trace.Logf(c.Q.Now, "byz leader n%d finalizes %s with mask %b", b.leader.Idx, s.Hash.String()[:8], final.Mask)
	}
	return nil
}

func c26ByzGen(rng *core.Rng, tier string, p *harness.Plan) {
	p.Params = map[string]int64{"byz_leader": 1, "nodes": 7, "start_s": int64(3600 + rng.IntN(60000)), "maxlat_ms": int64(5 + rng.IntN(50)), "op_period_s": 10000000}
	p.Params["leader"] = int64(rng.IntN(7))
	p.Params["omit_self"] = 1
	if rng.Chance(0.25) {
		p.Params["omit_self"] = 0 // control: the same driver behaving like an honest leader
	}
	p.Params["before"] = int64(2 + rng.IntN(6))
	p.Params["after"] = int64(2 + rng.IntN(4))
}

func c26ByzExec(p *harness.Plan) *harness.Outcome {
	r, err := newClusterRun("C26", p)
	if err != nil {
		o := harness.NewOutcome()
		o.ToolError = err.Error()
		return o
	}
	defer r.c.Close()
	c := r.c
	if err := c.Boot(); err != nil {
		r.out.ToolError = err.Error()
		return r.out
	}
	rng := core.NewRng(core.SplitMix64(p.Seed ^ 0x26b))
	inj, err := newInjector(c, rng.Sub(1))
	if err != nil {
		r.out.ToolError = err.Error()
		return r.out
	}
	leader := c.Nodes[int(p.P("leader", 0))%inj.n]
	b := &byzLeader{r: r, inj: inj, leader: leader, omitSelf: p.P("omit_self", 1) == 1, commitments: map[int]*crypto.Key{}, responses: map[int]*[32]byte{}}
	b.pos = b.posOf(leader)
	c.AddMonitor(b)
	c.Run(2 * time.Second)

	var valid []*injected
	storedOn := func(n *cluster.SNode, h crypto.Hash) bool {
		if !n.Alive {
			return false
		}
		s, _ := n.Store.ReadSnapshot(h)
		return s != nil
	}
	history := func(k int, chainOf func(i int) int, newRound bool) bool {
		for i := 0; i < k && !c.Halt; i++ {
			inj.now = c.NowNano()
			it, err := inj.next(chainOf(i), newRound || rng.Chance(0.5))
			if err != nil {
				continue
			}
			valid = append(valid, it)
			for _, n := range b.others() {
				inj.deliver(c.External(), n, it.tx, it.snap, rng.Dur(0, 30*time.Millisecond))
			}
			c.Run(c.Q.Now + rng.Dur(300*time.Millisecond, 900*time.Millisecond))
		}
		return !c.Halt
	}
	li := inj.chainIndex(leader.Id)
	// some ordinary history on several chains, the leader's own included (certified with its participation)
	history(int(p.P("before", 3)), func(i int) int { return rng.IntN(inj.n) }, false)
	history(1, func(int) int { return li }, true)
	c.Run(c.Q.Now + 1500*time.Millisecond)

	// the Byzantine member goes its own way: its real node is switched off, the simulator speaks for it
	c.Crash(leader, false)
	inj.now = c.NowNano()
	draft, err := inj.next(li, false)
	if err != nil || c.Halt {
		return r.finish(false, map[string]any{"mode": "byzantine leader", "skipped": "no draft"})
	}
	s := copySnapshot(draft.snap)
	s.Signature = nil
	s.Hash = s.PayloadHash()
	seed := make([]byte, 64)
	rng.Bytes(seed)
	b.nonce = crypto.NewKeyFromSeed(seed)
	b.snap = s
	for _, n := range b.others() {
		c.Inject(leader, n, buildTxBundle([]*common.VersionedTransaction{draft.tx}, true), rng.Dur(0, 10*time.Millisecond))
		c.Inject(leader, n, buildAnnouncement(s, b.nonce.Public(), leader.Signer.PrivateSpendKey), 15*time.Millisecond+rng.Dur(0, 10*time.Millisecond))
	}
	r.out.Faults["byz.leader_omits_own_signature"] += int(p.P("omit_self", 1))
	r.out.Faults["byz.leader_runs_signing_round"]++
	c.Run(c.Q.Now + 6*time.Second)

	holders := 0
	for _, n := range b.others() {
		if storedOn(n, b.snap.Hash) {
			holders++
		}
	}
	r.out.Evals++
	r.out.Probes["byz_commitments_received"] += len(b.commitments)
	r.out.Probes["byz_responses_received"] += len(b.responses)
	if b.finalized {
		r.out.Probes["byz_snapshot_certified"]++
	}
	if holders != 0 && holders != len(b.others()) && !c.Halt {
		// give stragglers a chance before judging agreement
		c.Run(c.Q.Now + 5*time.Second)
		holders = 0
		for _, n := range b.others() {
			if storedOn(n, b.snap.Hash) {
				holders++
			}
		}
	}
	if holders != 0 && holders != len(b.others()) && !c.Halt {
		c.Violate("C26", "byzantine-leader-snapshot-final-on-some-nodes-only", fmt.Sprintf("%d of %d honest nodes store the snapshot", holders, len(b.others())), nil)
	}
	if holders == 0 {
		// not final anywhere: the model of the leader's chain must forget the draft
		ch := inj.chains[li]
		ch.snaps = ch.snaps[:len(ch.snaps)-1]
		ch.lastTime = draft.snap.Timestamp - 1
		r.out.Probes["byz_snapshot_refused_everywhere"]++
	} else {
		ch := inj.chains[li]
		ch.snaps[len(ch.snaps)-1] = &common.SnapshotWithTopologicalOrder{Snapshot: b.snap}
		r.out.Probes["byz_snapshot_final_everywhere"]++
	}
	if p.P("omit_self", 1) == 0 && holders == 0 && !c.Halt {
		c.Violate("C26", "honest-style-proposal-not-finalized", "the driver behaving like an honest leader (own signature included) did not get its snapshot finalized: the driver, not the code, is at fault", nil)
		if v := c.Violation; v != nil {
			r.out.ToolError = v.Detail
			c.Violation = nil
		}
		return r.out
	}

	// the chain moves on (rounds mature), then the real aggregators of every node run
	history(int(p.P("after", 3)), func(i int) int { return li }, true)
	history(2, func(i int) int { return rng.IntN(inj.n) }, true)
	if !c.Halt {
		c.AggregateAll(10)
		r.out.Evals++
	}
	if !c.Halt {
		// a node that went through this must also come back from a restart and aggregate again
		victim := b.others()[rng.IntN(len(b.others()))]
		c.Crash(victim, false)
		if err := c.Restart(victim); err != nil {
			c.Violate("C26", "restart-failed", err.Error(), victim)
		}
		c.Run(c.Q.Now + time.Second)
		if !c.Halt {
			c.AggregateAll(10)
			r.out.Evals++
		}
	}
	missing := 0
	if !c.Halt {
		for _, it := range valid {
			for _, n := range b.others() {
				if !storedOn(n, it.snap.Hash) {
					inj.deliver(c.External(), n, it.tx, it.snap, rng.Dur(0, 300*time.Millisecond))
				}
			}
		}
		c.Run(c.Q.Now + 8*time.Second)
		for _, it := range valid {
			for _, n := range b.others() {
				if !storedOn(n, it.snap.Hash) {
					missing++
				}
			}
		}
	}
	r.out.Probes["valid_missing_somewhere"] += missing
	r.out.Probes["valid_injected"] += len(valid)
	relabelPanic(r, "C26")
	return r.finish(len(b.commitments) > 0, map[string]any{"mode": "byzantine leader", "omit_self": p.P("omit_self", 1), "commitments": len(b.commitments), "responses": len(b.responses), "certified": b.finalized, "final_on": holders, "missing": missing})
}
