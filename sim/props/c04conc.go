package props

import (
	"fmt"

	"verifsim/core"
	"verifsim/harness"
	"verifsim/storerig"

	"github.com/MixinNetwork/mixin/crypto"
)

// C04, concurrent part (rig R3c, see conc.go): in every round 2-4 tasks
// reserve the one-time output keys of transactions that share keys (admission
// path and finalization path), at the same time, interleaved at the store mutex
// and Badger transaction boundaries by a seeded scheduler. Each round must be
// linearizable against the first-binder-wins model and leave exactly the
// bindings that order produces.

type c04Call struct {
	tx   int
	fork bool
}

func c04Conc(c *rctx, f *storerig.Fix, p *harness.Plan, rng *core.Rng, keys []*crypto.Key, txs []*c04Tx) *harness.Outcome {
	binding := make([]int, len(keys))
	for i := range binding {
		binding[i] = -1
	}
	byKey := map[int][]int{}
	for ti, t := range txs {
		for _, k := range t.keys {
			byKey[k] = append(byKey[k], ti)
		}
	}
	var contested []int
	for k := range keys {
		if len(byKey[k]) >= 2 {
			contested = append(contested, k)
		}
	}
	if len(contested) == 0 {
		return c.done(false, map[string]any{"mode": "concurrent", "skipped": "no contested key"})
	}
	step := func(s []int, o *concOp) ([]int, bool) {
		call := o.data.(*c04Call)
		if o.panicked != "" {
			return s, false
		}
		if o.conflict() {
			return s, true
		}
		t := txs[call.tx]
		ok := !t.dup
		for _, k := range t.keys {
			if s[k] >= 0 && s[k] != call.tx {
				ok = false
			}
		}
		if (o.err == nil) != ok {
			return s, false
		}
		if !ok {
			return s, true
		}
		ns := append([]int(nil), s...)
		for _, k := range t.keys {
			ns[k] = call.tx
		}
		return ns, true
	}
	observe := func() ([]int, error) {
		obs := make([]int, len(keys))
		for k := range keys {
			obs[k] = -1
			h, err := f.Store.ReadGhostKeyLock(*keys[k])
			if err != nil {
				return nil, err
			}
			if h == nil {
				continue
			}
			for ti, t := range txs {
				if t.hash == *h {
					obs[k] = ti
				}
			}
			if obs[k] < 0 {
				return nil, fmt.Errorf("key %d bound to an unknown transaction", k)
			}
		}
		return obs, nil
	}
	rounds := int(p.P("rounds", 10))
	granted, refused, overlapped := 0, 0, 0
	for r := 0; r < rounds; r++ {
		hot := contested[rng.IntN(len(contested))]
		n := 2 + rng.IntN(3)
		var tasks [][]*concOp
		var all []*concOp
		for j := 0; j < n; j++ {
			ti := byKey[hot][rng.IntN(len(byKey[hot]))]
			if rng.Chance(0.15) {
				ti = rng.IntN(len(txs))
			}
			fork := rng.Chance(0.35)
			t := txs[ti]
			o := &concOp{name: fmt.Sprintf("reserve(tx%d,fork=%v)", ti, fork), data: &c04Call{tx: ti, fork: fork}}
			o.fn = func() error { return f.Store.LockGhostKeys(allOutputKeys(t.ver), t.hash, fork) }
			tasks = append(tasks, []*concOp{o})
			all = append(all, o)
		}
		points, err := runConcurrentTasks(rng, tasks, 400)
		if err != nil {
			return c.tool(fmt.Errorf("round %d: %v (%v)", r, err, points))
		}
		for i, o := range all {
			c.logf("r%d %s [%d,%d] err=%v", r, o.name, o.call, o.ret, o.err != nil)
			for j := range all {
				if i < j && all[i].call < all[j].ret && all[j].call < all[i].ret {
					overlapped++
				}
			}
		}
		obs, err := observe()
		if err != nil {
			return c.viol("read-error", "round %d: %v", r, err)
		}
		c.out.Evals++
		same := func(a, b []int) bool {
			for i := range a {
				if a[i] != b[i] {
					return false
				}
			}
			return true
		}
		if !linearizable(binding, all, step, func(s []int) bool { return same(s, obs) }) {
			desc := ""
			for _, o := range all {
				desc += fmt.Sprintf(" %s[%d,%d]=>%s;", o.name, o.call, o.ret, concResult(o))
			}
			return c.viol("concurrent-history-not-linearizable", "round %d: no serial order of the concurrent reservations explains their results and the stored bindings (before %v, after %v):%s schedule %v", r, binding, obs, desc, points)
		}
		for _, o := range all {
			if o.conflict() {
				continue
			}
			if o.err == nil {
				granted++
			} else {
				refused++
			}
		}
		binding = obs
	}
	c.out.Probes["conc_reservations_granted"] += granted
	c.out.Probes["conc_reservations_refused"] += refused
	c.out.Probes["conc_overlapping_pairs"] += overlapped
	c.out.Faults["interleaved_store_calls"] += overlapped
	return c.done(granted > 0 && refused > 0 && overlapped > 0, map[string]any{"mode": "concurrent", "rounds": rounds, "granted": granted, "refused": refused, "overlapping_pairs": overlapped})
}
