package props

import (
	"bytes"
	"fmt"
	"sort"
	"strings"
	"time"

	"verifsim/cluster"
	"verifsim/core"
	"verifsim/harness"
	"verifsim/storerig"

	"github.com/MixinNetwork/mixin/common"
	"github.com/MixinNetwork/mixin/crypto"
	"github.com/MixinNetwork/mixin/storage"
)

// C15 — finalizing a snapshot is atomic and idempotent.
//
// R3: batches of mixed transactions (deposits of several assets, transfers,
// membership carriers) are finalized through the real WriteSnapshot in random
// orders on several chains. Some batches contain a member that cannot be
// finalized (one-time key owned by another transaction, asset-info clash,
// illegal membership transition, two members clashing with each other) at a
// hash-determined position; finalized transactions are re-included in later
// snapshots of other chains after their outputs have been locked by a
// spender; restarts happen between writes. Oracle: full key/value dump
// before and after every write, compared with an effect model by key class.

type c15Tx struct {
	ver       *common.VersionedTransaction
	hash      crypto.Hash
	kind      string // deposit | spend | pledge | accept
	asset     crypto.Hash
	info      string // chain|assetkey for deposits
	amount    common.Integer
	poisoned  bool
	finalized bool
	dead      bool
	chains    map[int]bool
	signer    crypto.Key
}

func c15Gen(rng *core.Rng, tier string) *harness.Plan {
	p := &harness.Plan{Seed: rng.Uint64(), Params: map[string]int64{}}
	n := 20 + rng.IntN(60)
	if tier == "thorough" {
		n = 50 + rng.IntN(250)
	}
	big := int64(0)
	if tier == "thorough" && rng.Chance(0.1) {
		big = 1
	}
	p.Params["big"] = big
	if rng.Chance(0.6) {
		p.Params["chain_skew_ms"] = int64(1 + rng.IntN(40))
	}
	if rng.Chance(0.5) {
		p.Params["commit_crash"] = 1
	}
	w := []int{5 + rng.IntN(4), 2 + rng.IntN(3), 1 + rng.IntN(2), rng.IntN(3), rng.IntN(3), 4 + rng.IntN(4), rng.IntN(3), rng.IntN(2)}
	kinds := []string{"deposit", "spend", "member", "poison", "clash", "snapshot", "share", "restart"}
	for i := 0; i < n; i++ {
		op := harness.Op{Kind: kinds[weighted(rng, w)], N: rng.IntN(7), A: int64(rng.IntN(1000)), B: int64(1 + rng.IntN(6)), C: int64(rng.IntN(1000))}
		if op.Kind == "deposit" && big == 1 && rng.Chance(0.05) {
			op.B = int64(100 + rng.IntN(150)) // build a large pending pool
		}
		if op.Kind == "snapshot" && big == 1 && rng.Chance(0.2) {
			op.B = 255
		}
		p.Ops = append(p.Ops, op)
	}
	return p
}

// c15Stop is the panic value of an injected process stop.
type c15Stop struct{}

type c15Asset struct {
	id    crypto.Hash
	chain crypto.Hash
	key   string
}

func c15Exec(p *harness.Plan) *harness.Outcome {
	c := newCtx("C15")
	f, err := storerig.NewFix(7)
	if err != nil {
		return c.tool(err)
	}
	defer f.Close()
	assets := []c15Asset{
		{common.DOGEAssetId, common.DOGEAssetId, "6770a1e5"},
		{common.SOLAssetId, common.SOLAssetId, "11111111111111111111111111111111"},
		{crypto.Sha256Hash([]byte("c15-asset-x")), common.EthereumAssetId, "0xaaaa"},
		{common.XINAssetId, common.XINAsset.Chain, common.XINAsset.AssetKey},
	}
	info := map[crypto.Hash]string{common.XINAssetId: common.XINAsset.Chain.String() + "|" + common.XINAsset.AssetKey}
	totals := map[crypto.Hash]common.Integer{}
	if _, bal, err := f.Store.ReadAssetWithBalance(common.XINAssetId); err == nil {
		totals[common.XINAssetId] = bal
	}
	var pool []*c15Tx
	var spendable []*c15Tx // finalized deposits with an unspent (unlocked) output 0
	locked := map[crypto.Hash]bool{}
	boundKeys := map[crypto.Key]crypto.Hash{}
	someonePledging := false
	ts := f.BaseTime()
	seq := 0
	foreign := crypto.Blake3Hash([]byte("c15-foreign-owner"))

	pending := func() []*c15Tx {
		var out []*c15Tx
		for _, t := range pool {
			if !t.finalized && !t.dead {
				out = append(out, t)
			}
		}
		return out
	}
	mkDeposit := func(a c15Asset, chain crypto.Hash, key string, amount uint64) *c15Tx {
		seq++
		ver := f.MakeDeposit(a.id, chain, key, common.NewInteger(amount), fmt.Sprintf("c15-%d", seq), uint64(seq%3), 0)
		return &c15Tx{ver: ver, hash: ver.PayloadHash(), kind: "deposit", asset: a.id, info: chain.String() + "|" + key, amount: common.NewInteger(amount), chains: map[int]bool{}}
	}

	okSnaps, failSnaps, shared := 0, 0, 0
	for i, op := range p.Ops {
		switch op.Kind {
		case "deposit":
			for k := int64(0); k < op.B; k++ {
				a := assets[(int(op.A)+int(k))%len(assets)]
				if rec := info[a.id]; rec != "" && rec != a.chain.String()+"|"+a.key {
					continue // the asset was recorded with the clashing information
				}
				t := mkDeposit(a, a.chain, a.key, uint64(1+op.C%5))
				if err := f.Admit(t.ver, false); err != nil {
					return c.tool(fmt.Errorf("admit deposit: %w", err))
				}
				pool = append(pool, t)
			}
			c.logf("deposit x%d", op.B)
		case "clash":
			// a deposit whose asset information differs from what another
			// pending deposit of the same (not yet recorded) asset carries
			a := assets[2]
			if info[a.id] != "" {
				continue
			}
			t := mkDeposit(a, common.BitcoinAssetId, "0xbbbb", 3)
			if err := f.Admit(t.ver, false); err != nil {
				return c.tool(fmt.Errorf("admit clash: %w", err))
			}
			pool = append(pool, t)
			c.logf("clash deposit")
		case "spend":
			if len(spendable) == 0 {
				continue
			}
			si := int(op.A) % len(spendable)
			src := spendable[si]
			spendable = append(spendable[:si:si], spendable[si+1:]...)
			seq++
			ver := f.MakeSpend(src.asset, []*common.UTXO{storerig.UTXOOf(src.ver, 0)}, 0, []common.Integer{src.amount}, []int{1}, fmt.Sprintf("c15s-%d", seq))
			if err := f.Admit(ver, false); err != nil {
				return c.tool(fmt.Errorf("admit spend: %w", err))
			}
			locked[src.hash] = true
			pool = append(pool, &c15Tx{ver: ver, hash: ver.PayloadHash(), kind: "spend", asset: src.asset, amount: src.amount, chains: map[int]bool{}})
			c.logf("spend of %s", src.hash.String()[:8])
		case "member":
			seq++
			kind := "accept"
			typ := uint8(common.OutputTypeNodeAccept)
			if op.C%2 == 0 {
				kind, typ = "pledge", common.OutputTypeNodePledge
			}
			id := cluster.Account(7, 300+seq, "SIGNER")
			tx := common.NewTransactionV5(common.XINAssetId)
			tx.AddDepositInput(&common.DepositData{Chain: common.XINAsset.Chain, AssetKey: common.XINAsset.AssetKey, Transaction: fmt.Sprintf("c15m-%d", seq), Index: 0, Amount: common.NewInteger(2)})
			tx.AddOutputWithType(typ, nil, common.Script{}, common.NewInteger(2), nil)
			tx.Extra = append(append([]byte{}, id.PublicSpendKey[:]...), id.PublicSpendKey[:]...)
			ver := tx.AsVersioned()
			if err := f.Admit(ver, false); err != nil {
				return c.tool(fmt.Errorf("admit member: %w", err))
			}
			pool = append(pool, &c15Tx{ver: ver, hash: ver.PayloadHash(), kind: kind, asset: common.XINAssetId, info: info[common.XINAssetId], amount: common.NewInteger(2), chains: map[int]bool{}, signer: id.PublicSpendKey})
			c.logf("member %s", kind)
		case "poison":
			pd := pending()
			if len(pd) == 0 {
				continue
			}
			t := pd[int(op.A)%len(pd)]
			if len(t.ver.Outputs[0].Keys) == 0 || t.poisoned {
				continue
			}
			k := t.ver.Outputs[0].Keys[0]
			if _, bound := boundKeys[*k]; bound {
				continue
			}
			if err := f.Store.LockGhostKeys([]*crypto.Key{k}, foreign, false); err != nil {
				return c.tool(fmt.Errorf("poison: %w", err))
			}
			boundKeys[*k] = foreign
			t.poisoned = true
			c.logf("poison %s", t.hash.String()[:8])
		case "snapshot", "share":
			node := op.N % 7
			var members []*c15Tx
			if op.Kind == "share" {
				// re-include transactions already finalized through another chain
				var cands []*c15Tx
				for _, t := range pool {
					if t.finalized && !t.chains[node] {
						cands = append(cands, t)
					}
				}
				if len(cands) == 0 {
					continue
				}
				members = append(members, cands[int(op.A)%len(cands)])
				shared++
			}
			pd := pending()
			want := int(op.B)
			for k := 0; k < len(pd) && len(members) < want; k++ {
				t := pd[(int(op.A)+k*7)%len(pd)]
				dupe := false
				for _, m := range members {
					if m == t {
						dupe = true
					}
				}
				if !dupe {
					members = append(members, t)
				}
			}
			if len(members) == 0 {
				continue
			}
			sort.Slice(members, func(a, b int) bool { return bytes.Compare(members[a].hash[:], members[b].hash[:]) < 0 })
			// effect model, evaluated in snapshot order on tentative state
			fail := ""
			var culprit *c15Tx
			tInfo := map[crypto.Hash]string{}
			tBound := map[crypto.Key]crypto.Hash{}
			tPledging := someonePledging
			exp := map[string]int{"SNAPSHOT": 1, "TOPOLOGY": 1, "SNAPTOPO": 1, "WORKSNAPSHOT": 1, "UNIQUE": len(members)}
			newTotals := map[crypto.Hash]common.Integer{}
			for _, m := range members {
				if m.finalized {
					continue
				}
				culprit = m
				exp["FINALIZATION"]++
				if m.ver.Inputs[0].Deposit != nil {
					cur := info[m.asset]
					if v, ok := tInfo[m.asset]; ok {
						cur = v
					}
					if cur == "" {
						tInfo[m.asset] = m.info
						exp["ASSETINFO"]++
					} else if cur != m.info {
						fail = "asset-info"
						break
					}
				}
				for oi, out := range m.ver.Outputs {
					_ = oi
					for _, k := range out.Keys {
						owner, bound := boundKeys[*k]
						if o2, ok := tBound[*k]; ok {
							owner, bound = o2, true
						}
						if bound && owner != m.hash {
							fail = "ghost-key"
							break
						}
						if !bound {
							tBound[*k] = m.hash
							exp["GHOST"]++
						}
					}
					if fail != "" {
						break
					}
					exp["UTXO"]++
					switch out.Type {
					case common.OutputTypeNodePledge:
						if tPledging {
							fail = "membership"
						} else {
							tPledging = true
							exp["NODESTATEQUEUE"]++
						}
					case common.OutputTypeNodeAccept:
						fail = "membership" // nobody with these keys is pledging
					}
				}
				if fail != "" {
					break
				}
				if m.ver.Inputs[0].Deposit != nil {
					base, ok := newTotals[m.asset]
					if !ok {
						base = totals[m.asset]
					}
					newTotals[m.asset] = base.Add(m.amount)
				}
			}
			before := f.Dump()
			ts += uint64(time.Millisecond)
			var vers []*common.VersionedTransaction
			for _, m := range members {
				vers = append(vers, m.ver)
			}
			var werr error
			// chains carry their own clocks: a snapshot written later on another chain may well be stamped
			// earlier than the one that first finalized a shared transaction (DAG, per-chain timestamps)
			snapTs := ts - uint64(node)*uint64(p.P("chain_skew_ms", 0))*uint64(time.Millisecond)
			// some writes are cut right before the k-th Badger commit they issue (process stop at commit
			// granularity, seam: storage instrumentation overlay); the store is then reopened from disk
			crashAt, commits, crashed := 0, 0, false
			if p.P("commit_crash", 0) == 1 && op.C%4 == 0 {
				crashAt = 1 + int(op.C/4)%3
				storage.SimPoint = func(pt string) {
					if strings.HasPrefix(pt, "commit:") {
						commits++
						if commits == crashAt {
							panic(c15Stop{})
						}
					}
				}
			}
			g := c.guard("write-panic", func() {
				defer func() {
					if r := recover(); r != nil {
						if _, ok := r.(c15Stop); !ok {
							panic(r)
						}
						crashed = true
					}
				}()
				_, werr = f.Finalize(node, snapTs, vers, nil)
			})
			storage.SimPoint = nil
			if g != nil {
				return g
			}
			if crashed {
				c.out.Faults["crash.before_commit_inside_WriteSnapshot"]++
				if err := f.Reopen(false); err != nil {
					return c.tool(err)
				}
			}
			after := f.Dump()
			added, removed, changed := storerig.DiffDumps(before, after)
			if crashed {
				c.out.Evals++
				c.logf("%s n%d members=%d stopped before commit %d: +%d -%d ~%d", op.Kind, node, len(members), crashAt, len(added), len(removed), len(changed))
				if len(added)+len(removed)+len(changed) == 0 {
					continue // nothing of it is durable: as if never written (members stay pending)
				}
				if crashAt == 1 {
					return c.viol("partial-write-after-stop", "op %d: the write was stopped before its first commit yet the reopened database changed: +%v -%v ~%v", i, storerig.CountByPrefix(added), storerig.CountByPrefix(removed), storerig.CountByPrefix(changed))
				}
				// stopped between two commits of one snapshot write: whatever is durable must already be the
				// complete effect, judged below exactly like a completed write
				if fail != "" {
					return c.viol("partial-write-after-stop", "op %d: a snapshot write that cannot succeed (%s) left durable changes when stopped between its commits: +%v", i, fail, storerig.CountByPrefix(added))
				}
				f.NextTopo++
				werr = nil
			}
			c.out.Evals++
			c.logf("%s n%d members=%d expectfail=%q err=%v", op.Kind, node, len(members), fail, werr != nil)
			if fail != "" {
				failSnaps++
				culprit.dead = true
				c.out.Probes["fail_"+fail]++
				if werr == nil {
					return c.viol("unfinalizable-member-written:"+fail, "op %d: snapshot with a member that cannot finalize (%s) was written", i, fail)
				}
				if len(added)+len(removed)+len(changed) > 0 {
					return c.viol("partial-write", "op %d: failed snapshot write (%s) changed the database: +%v -%v ~%v", i, fail, storerig.CountByPrefix(added), storerig.CountByPrefix(removed), storerig.CountByPrefix(changed))
				}
				continue
			}
			if werr != nil {
				return c.viol("write-refused", "op %d: %v", i, werr)
			}
			okSnaps++
			if len(members) > 100 {
				c.out.Probes["large_batch"]++
			}
			gotAdded := storerig.CountByPrefix(added)
			for asset := range newTotals {
				if _, had := totals[asset]; !had {
					exp["ASSETTOTAL"]++
				}
			}
			for k, v := range exp {
				if gotAdded[k] != v {
					return c.viol("effects-mismatch:"+k, "op %d: snapshot of %d members added %d %s records, model %d (all added: %v)", i, len(members), gotAdded[k], k, v, gotAdded)
				}
			}
			for k, v := range gotAdded {
				if exp[k] != v {
					return c.viol("effects-mismatch:"+k, "op %d: unexpected %d %s records added (model %d)", i, v, k, exp[k])
				}
			}
			if len(removed) > 0 {
				return c.viol("records-removed", "op %d: %v", i, storerig.CountByPrefix(removed))
			}
			for _, k := range changed {
				if storerig.PrefixOf(k) != "ASSETTOTAL" {
					return c.viol("record-overwritten:"+storerig.PrefixOf(k), "op %d: finalization overwrote an existing %s record", i, storerig.PrefixOf(k))
				}
			}
			// commit the model
			for a, v := range tInfo {
				info[a] = v
			}
			for k, v := range tBound {
				boundKeys[k] = v
			}
			someonePledging = tPledging
			for a, v := range newTotals {
				totals[a] = v
			}
			for _, m := range members {
				m.chains[node] = true
				if !m.finalized {
					m.finalized = true
					if m.kind == "deposit" && !locked[m.hash] {
						spendable = append(spendable, m)
					}
				}
			}
			for a, v := range totals {
				_, bal, err := f.Store.ReadAssetWithBalance(a)
				if err != nil || bal.Cmp(v) != 0 {
					return c.viol("asset-total-mismatch", "op %d: asset %s total %s, model %s (%v)", i, a.String()[:8], bal, v, err)
				}
			}
		case "restart":
			if err := f.Reopen(false); err != nil {
				return c.tool(err)
			}
			c.out.Faults["restart"]++
			c.logf("restart")
		}
	}
	c.out.Probes["snapshots_ok"] += okSnaps
	c.out.Probes["snapshots_failed"] += failSnaps
	c.out.Probes["shared_transaction_snapshots"] += shared
	return c.done(okSnaps > 0 && failSnaps > 0, map[string]any{"pool": len(pool), "ok": okSnaps, "failed": failSnaps, "shared": shared})
}

func init() {
	harness.Register(&harness.Property{
		ID:    "C15",
		Level: "exploration",
		Rule: "seeded histories of admissions (deposits of 4 assets incl. a new one, transfers, membership carriers), poisonings (a one-time key bound to a foreign owner), asset-info clashes, snapshot writes of 1-6 (thorough: up to 255) members on 7 chains, re-inclusion of finalized transactions in other chains' snapshots after their output was locked, and restarts; " +
			"chains carry skewed clocks in 60% of the runs (a later-written snapshot may be stamped earlier); in half of the runs a quarter of the writes are stopped right before their 1st/2nd/3rd Badger commit and the store reopened (durable state must be nothing or the complete effect); " +
			"every write is judged by a full before/after dump against an effect model per key class; non-trivial = at least one successful and one failing snapshot write; distinct = canonical-log digests",
		Components: r3Components,
		Assume:     r3Assume,
		Gen:        c15Gen,
		Exec:       c15Exec,
		QuickRuns:  300, ThoroughRuns: 5000,
		QuickWall: 40 * time.Second, ThoroughWall: 8 * time.Minute,
	})
}
