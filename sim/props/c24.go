package props

import (
	"fmt"
	"sort"
	"time"

	"verifsim/cluster"
	"verifsim/core"
	"verifsim/harness"

	"github.com/MixinNetwork/mixin/crypto"
	"github.com/MixinNetwork/mixin/p2p"
)

// C24 — retiring a local proposal never loses a pending transaction.
//
// R1: local proposals are kept in flight by withholding commitments,
// challenges or responses on chosen links for a while, by partitions and by
// clock jumps past the round gap, with bursts that create overlapping
// batches; some members get finalized meanwhile through other chains.
// Oracle A (per step): the set of local proposals of every node is diffed
// after each step; for every retired proposal each member that is not
// finalized and still has a body must be in the cache queue unless a
// still-active proposal owns it; a member of a still-active proposal must not
// be newly queued by a consensus step.
// Oracle B (bounded liveness, no client retries, no crashes in these runs):
// after faults stop every admitted transaction is finalized on every node.

type c24Agg struct {
	txs       []crypto.Hash
	timestamp uint64
}

type c24Mon struct {
	cluster.BaseMonitor
	r        *crun
	aggs     map[int]map[crypto.Hash]*c24Agg
	queued   map[int]map[crypto.Hash]bool
	retired  int
	requeued int
	withheld int
	windows  []c24Window
}

type c24Window struct {
	from, until time.Duration
	node        int // messages from/to this node
	types       map[byte]bool
	outbound    bool
}

func (m *c24Mon) OnSend(from, to *cluster.SNode, data []byte) [][]byte {
	now := m.r.c.Q.Now
	typ := p2p.SimMessageType(data)
	for _, w := range m.windows {
		if now < w.from || now > w.until || !w.types[typ] {
			continue
		}
		if (w.outbound && from.Idx == w.node) || (!w.outbound && to.Idx == w.node) {
			m.withheld++
			return [][]byte{}
		}
	}
	return nil
}

func (m *c24Mon) orderKeys(n *cluster.SNode) map[crypto.Hash]bool {
	out := map[crypto.Hash]bool{}
	kvs, err := n.Store.SimDumpCache("CACHETRANSACTIONORDER", false)
	if err != nil {
		return out
	}
	for _, kv := range kvs {
		var h crypto.Hash
		copy(h[:], kv.Key[len("CACHETRANSACTIONORDER"):])
		out[h] = true
	}
	return out
}

func (m *c24Mon) AfterStep(n *cluster.SNode, kind string) {
	c := m.r.c
	ch := n.Node.SimSelfChain()
	if ch == nil {
		return
	}
	cur := map[crypto.Hash]*c24Agg{}
	active := map[crypto.Hash]crypto.Hash{} // tx -> owning proposal
	for h, a := range ch.CosiAggregators {
		cur[h] = &c24Agg{txs: append([]crypto.Hash{}, a.Snapshot.Transactions...), timestamp: a.Snapshot.Timestamp}
		for _, t := range a.Snapshot.Transactions {
			active[t] = h
		}
	}
	prev := m.aggs[n.Idx]
	queuedNow := m.orderKeys(n)
	var gone []crypto.Hash
	for h := range prev {
		if cur[h] == nil {
			gone = append(gone, h)
		}
	}
	sort.Slice(gone, func(i, j int) bool { return gone[i].String() < gone[j].String() })
	for _, h := range gone {
		m.retired++
		for _, t := range prev[h].txs {
			m.r.out.Evals++
			if _, fin, _ := n.Store.ReadTransaction(t); fin != "" {
				continue
			}
			body, _, _ := n.Store.ReadTransaction(t)
			if body == nil {
				if cb, _ := n.Store.CacheGetTransaction(t); cb == nil {
					continue
				}
			}
			if _, owned := active[t]; owned {
				continue
			}
			if !queuedNow[t] {
				c.Violate("C24", "retired-proposal-lost-transaction", fmt.Sprintf("n%d retired proposal %s in a %s step; its member %s is unfinalized, has a body, is owned by no active proposal and is not in the cache queue", n.Idx, h.String()[:8], kind, t.String()[:8]), n)
				return
			}
			m.requeued++
		}
	}
	if kind == "poll" || kind == "final" {
		before := m.queued[n.Idx]
		for t := range queuedNow {
			if before[t] {
				continue
			}
			if owner, owned := active[t]; owned && prev[owner] != nil {
				if _, fin, _ := n.Store.ReadTransaction(t); fin == "" {
					c.Violate("C24", "requeued-while-owned-by-active-proposal", fmt.Sprintf("n%d queued %s again in a %s step although the still-active proposal %s owns it", n.Idx, t.String()[:8], kind, owner.String()[:8]), n)
					return
				}
			}
		}
	}
	m.aggs[n.Idx] = cur
	m.queued[n.Idx] = queuedNow
}

func (m *c24Mon) OnRestart(n *cluster.SNode) {
	delete(m.aggs, n.Idx)
	delete(m.queued, n.Idx)
}

func c24Gen(rng *core.Rng, tier string) *harness.Plan {
	p := &harness.Plan{Seed: rng.Uint64(), Params: map[string]int64{}}
	baseClusterParams(rng, p)
	delete(p.Params, "drop_ppm")
	p.Params["hold_on_partition"] = 1 // forwarded transaction bundles have no retry: a stalled link delays them, a reset would legitimately lose them
	dur := time.Duration(40+rng.IntN(30)) * time.Second
	if tier == "thorough" {
		dur = time.Duration(70+rng.IntN(110)) * time.Second
	}
	p.Params["dur_ms"] = int64(dur / time.Millisecond)
	if rng.Chance(0.12) {
		// a quiet network: one node at a time gets a transaction and, close to the end of the round that
		// transaction opened, another one, then no steps for a moment. When it comes to the second one its
		// round must be closed, but no other chain has moved since (there is no newer round to reference):
		// the proposal is deferred and must come back.
		p.Params["quiet"] = 1
		for k := range p.Params {
			if k == "dup_ppm" || k == "reorder_ppm" {
				delete(p.Params, k)
			}
		}
		p.Params["maxlat_ms"] = int64(5 + rng.IntN(30))
		at := 3 * time.Second
		i := 0
		for at < dur-8*time.Second {
			target := rng.IntN(9)
			p.Ops = append(p.Ops, harness.Op{At: int64(at / time.Microsecond), Kind: "deposit", S: fmt.Sprint("q", i, "a"), N: target, A: int64(rng.IntN(4)), B: int64(rng.IntN(2000)), C: int64(rng.IntN(4))})
			second := at + rng.Dur(2100*time.Millisecond, 3300*time.Millisecond)
			p.Ops = append(p.Ops, harness.Op{At: int64(second / time.Microsecond), Kind: "deposit", S: fmt.Sprint("q", i, "b"), N: target, A: int64(rng.IntN(4)), B: int64(rng.IntN(2000)), C: int64(rng.IntN(4))})
			if rng.Chance(0.7) {
				p.Ops = append(p.Ops, harness.Op{At: int64((second + rng.Dur(0, 400*time.Millisecond)) / time.Microsecond), Kind: "stall", N: target, A: int64(150 + rng.IntN(1200))})
			}
			at = second + rng.Dur(7*time.Second, 12*time.Second)
			i++
		}
		sortOps(p)
		return p
	}
	// (c24RollbackPlan, a node restored from an older disk image, is not drawn: see DESIGN.md 0.7)
	// bursts produce overlapping batches on one proposer
	return c24Bursts(rng, tier, p, dur)
}

// c24Directed: the restore-from-backup scenario is part of every batch.
func c24Directed(tier string, seed uint64) []*harness.Plan {
	n := 2
	if tier == "thorough" {
		n = 6
	}
	var out []*harness.Plan
	for i := 0; i < n; i++ {
		rng := core.NewRng(core.SplitMix64(seed ^ core.SplitMix64(uint64(i)+0xc24d)))
		p := &harness.Plan{Seed: rng.Uint64(), Params: map[string]int64{}}
		baseClusterParams(rng, p)
		delete(p.Params, "drop_ppm")
		p.Params["hold_on_partition"] = 1
		dur := time.Duration(40+rng.IntN(30)) * time.Second
		p.Params["dur_ms"] = int64(dur / time.Millisecond)
		c24RollbackPlan(rng, p, dur)
		out = append(out, p)
	}
	return out
}

func c24RollbackPlan(rng *core.Rng, p *harness.Plan, dur time.Duration) {
	{
		// a node restored from an older disk image: the operator takes a backup (stop, copy, start), the
		// node goes on proposing for a while, then it is stopped and started from the backup. Its peers
		// now know more of its own chain than it does; what it is handed right after the restart must
		// wait until it has caught up (its proposals are deferred) and must not get lost.
		p.Params["rollback"] = 1
		for k := range p.Params {
			if k == "dup_ppm" || k == "reorder_ppm" {
				delete(p.Params, k)
			}
		}
		target := rng.IntN(9)
		backup := rng.Dur(4*time.Second, 8*time.Second)
		restore := backup + rng.Dur(10*time.Second, 20*time.Second)
		p.Ops = append(p.Ops, harness.Op{At: int64(backup / time.Microsecond), Kind: "diskbackup", N: target})
		p.Ops = append(p.Ops, harness.Op{At: int64(restore / time.Microsecond), Kind: "diskrestore", N: target, A: int64(rng.IntN(2000))})
		n := 0
		for at := 2 * time.Second; at < restore-time.Second; at += rng.Dur(500*time.Millisecond, 2*time.Second) {
			who := rng.IntN(9)
			if rng.Chance(0.5) {
				who = target
			}
			n++
			p.Ops = append(p.Ops, harness.Op{At: int64(at / time.Microsecond), Kind: "deposit", S: fmt.Sprint("pre", n), N: who, A: int64(rng.IntN(4)), B: int64(rng.IntN(2000)), C: int64(rng.IntN(4))})
		}
		for k := 0; k < 8+rng.IntN(5); k++ {
			at := restore + rng.Dur(2300*time.Millisecond, 7500*time.Millisecond)
			p.Ops = append(p.Ops, harness.Op{At: int64(at / time.Microsecond), Kind: "deposit", S: fmt.Sprint("post", k), N: target, A: int64(rng.IntN(4)), B: int64(rng.IntN(2000)), C: int64(rng.IntN(4))})
		}
		// the peers do not send a node again what it confirmed within the last hour: the restored node gets
		// the snapshots it lost only after that; the idle hour is skipped
		p.Ops = append(p.Ops, harness.Op{At: int64((restore + 8*time.Second) / time.Microsecond), Kind: "jumpall", A: 3700})
		if d := restore + 20*time.Second; d > dur {
			p.Params["dur_ms"] = int64(d / time.Millisecond)
		}
		sortOps(p)
	}
}

func c24Bursts(rng *core.Rng, tier string, p *harness.Plan, dur time.Duration) *harness.Plan {
	seq := 0
	for b := 0; b < 2+rng.IntN(4); b++ {
		at := rng.Dur(2*time.Second, dur-6*time.Second)
		target := rng.IntN(9)
		for k := 0; k < 3+rng.IntN(7); k++ {
			seq++
			p.Ops = append(p.Ops, harness.Op{At: int64((at + rng.Dur(0, 4*time.Second)) / time.Microsecond), Kind: "deposit", S: fmt.Sprint("b", seq), N: target, A: int64(rng.IntN(4)), B: int64(rng.IntN(2000)), C: int64(rng.IntN(4))})
		}
		for k := 0; k < rng.IntN(3); k++ {
			p.Ops = append(p.Ops, harness.Op{At: int64((at + rng.Dur(200*time.Millisecond, 5*time.Second)) / time.Microsecond), Kind: "resubmit", S: fmt.Sprint("r", b, "-", k), N: target, A: int64(rng.IntN(1000)), B: int64(rng.IntN(3))})
		}
		if rng.Chance(0.6) {
			// the proposer gets no steps for a while in the middle of the burst: it wakes up behind its peers
			// with admitted transactions still to propose (its proposals are then deferred, not dropped)
			p.Ops = append(p.Ops, harness.Op{At: int64((at + rng.Dur(500*time.Millisecond, 3*time.Second)) / time.Microsecond), Kind: "stall", N: target, A: int64(2000 + rng.IntN(7000))})
		}
	}
	// deposits only: a transfer forwarded to a node that has not yet seen its
	// input finalized is dropped by that node's queue worker by design (the
	// client must retry), which is outside this property
	honestWorkload(rng, p, 2*time.Second, dur, 5+rng.IntN(8), 0)
	// quiet restarts at the very beginning (before any other traffic), each followed at once by submissions
	for i, n := range rng.Perm(7)[:2+rng.IntN(2)] {
		p.Ops = append(p.Ops, harness.Op{At: int64((400*time.Millisecond + time.Duration(i)*150*time.Millisecond) / time.Microsecond), Kind: "restartsubmit", S: fmt.Sprint("rs", i), N: n, A: int64(rng.IntN(1000)), B: int64(rng.IntN(3)), C: int64(rng.IntN(4))})
	}
	// withholding windows
	for i := 0; i < 2+rng.IntN(4); i++ {
		at := rng.Dur(2*time.Second, dur-3*time.Second)
		p.Ops = append(p.Ops, harness.Op{At: int64(at / time.Microsecond), Kind: "withhold", N: rng.IntN(9), A: int64(1500 + rng.IntN(9000)), B: int64(rng.IntN(6)), C: int64(rng.IntN(2))})
	}
	networkFaults(rng, p, 2*time.Second, dur, rng.IntN(3))
	for i := 0; i < rng.IntN(3); i++ {
		// clock jump past the round gap on one node, later removed
		at := rng.Dur(3*time.Second, dur-2*time.Second)
		n := rng.IntN(9)
		p.Ops = append(p.Ops, harness.Op{At: int64(at / time.Microsecond), Kind: "skew", N: n, A: int64(3100 + rng.IntN(3000))})
		p.Ops = append(p.Ops, harness.Op{At: int64((at + rng.Dur(time.Second, 8*time.Second)) / time.Microsecond), Kind: "skew", N: n, A: 0})
	}
	sortOps(p)
	return p
}

func c24Exec(p *harness.Plan) *harness.Outcome {
	r, err := newClusterRun("C24", p)
	if err != nil {
		o := harness.NewOutcome()
		o.ToolError = err.Error()
		return o
	}
	defer r.c.Close()
	c := r.c
	mon := &c24Mon{r: r, aggs: map[int]map[crypto.Hash]*c24Agg{}, queued: map[int]map[crypto.Hash]bool{}}
	c.AddMonitor(mon)
	if err := c.Boot(); err != nil {
		r.out.ToolError = err.Error()
		return r.out
	}
	typeSets := [][]byte{
		{p2p.PeerMessageTypeBatchSnapshotCommitment},
		{p2p.PeerMessageTypeBatchSnapshotResponse},
		{p2p.PeerMessageTypeBatchFullChallenge, p2p.PeerMessageTypeBatchTransactionChallenge},
		{p2p.PeerMessageTypeBatchSnapshotAnnouncement, p2p.PeerMessageTypeBatchFullChallenge},
		{p2p.PeerMessageTypeBatchSnapshotFinalization},
		{p2p.PeerMessageTypeBatchSnapshotCommitment, p2p.PeerMessageTypeBatchSnapshotResponse, p2p.PeerMessageTypePreCommitments},
	}
	r.extra["withhold"] = func(op harness.Op, idx int) {
		w := c24Window{from: c.Q.Now, until: c.Q.Now + time.Duration(op.A)*time.Millisecond, node: r.node(op.N).Idx, types: map[byte]bool{}, outbound: op.C == 1}
		for _, t := range typeSets[int(op.B)%len(typeSets)] {
			w.types[t] = true
		}
		mon.windows = append(mon.windows, w)
		r.fault(fmt.Sprintf("byz.withhold.set%d", int(op.B)%len(typeSets)), w.until)
	}
	r.schedule()
	c.Run(time.Duration(p.P("dur_ms", 40000)) * time.Millisecond)
	fin, total := 0, 0
	if !c.Halt {
		mon.windows = nil
		fin, total = r.settle(120*time.Second, false)
	}
	if !c.Halt && fin < total {
		c.Violate("C24", "pending-transaction-never-finalized", fmt.Sprintf("%d of %d admitted transactions are not finalized everywhere 120 s after the last fault (no crashes, no client retries): %v", total-fin, total, r.missing()[:min(3, len(r.missing()))]), nil)
	}
	r.out.Probes["proposals_retired"] += mon.retired
	r.out.Probes["members_found_requeued"] += mon.requeued
	r.out.Faults["byz.withheld_messages"] += mon.withheld
	r.out.Probes["accepted_finalized"] += fin
	r.out.Probes["accepted_total"] += total
	relabelPanic(r, "C24")
	return r.finish((mon.retired > 0 || p.P("quiet", 0) == 1 || p.P("rollback", 0) == 1) && fin > 0, map[string]any{"retired": mon.retired, "requeued_members": mon.requeued, "withheld": mon.withheld, "finalized": fin, "accepted": total})
}

func init() {
	harness.Register(&harness.Property{
		ID:    "C24",
		Level: "exploration",
		Rule: "seeded cluster runs with bursts (overlapping batches on one proposer; clients repeating a still-pending submission with fresh ones right behind it), 2-5 withholding windows (commitments / responses / challenges / announcements / finalizations dropped on the links of one node for 1.5-10 s), partitions, clock jumps past the round gap; one run in eight is a quiet network (one node at a time gets a second transaction near the end of the round its first one opened, then stalls briefly: no newer external round exists and the proposal is deferred); the local proposal set of every node is diffed after every step and every member of a retired proposal is looked up (finalization record, stored body, other active proposals, cache queue order records); after the last fault all admitted transactions must finalize everywhere within 120 simulated seconds without client retries; " +
			"non-trivial = at least one proposal retired and one transaction finalized; distinct = canonical-log digests. No crash faults in these runs (a crash legitimately drops queue entries).",
		Components: clusterComponents,
		Assume:     clusterAssume,
		Gen:        c24Gen,
		Exec:       c24Exec,
		QuickRuns:  64, ThoroughRuns: 3000,
		QuickWall: 45 * time.Second, ThoroughWall: 12 * time.Minute,
	})
}
