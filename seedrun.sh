#!/bin/bash
# usage: seedrun.sh <prop> <diff-file> [tier]   — apply a seeded change to /repo, run the check, revert.
# prints: RESULT <prop> <diff> caught|missed|builderror  + signatures
prop=$1; diff=$2; tier=${3:-quick}
cd /repo || exit 2
if ! git diff --quiet; then echo "repo dirty"; exit 2; fi
if ! git apply --check "$diff" 2>/dev/null; then echo "RESULT $prop $diff does-not-apply"; exit 2; fi
git apply "$diff"
out=$(cd /verif && ./check "$prop" --tier "$tier" 2>&1); rc=$?
git checkout -- .
git status --short | grep -v '^??' | head -3
sigs=$(for f in /verif/replays/${prop}-*.json; do [ -f "$f" ] && jq -r .violation.signature "$f"; done | sort | uniq -c | tr '\n' ';')
rm -f /verif/replays/${prop}-*.json
git -C /verif checkout -- evidence 2>/dev/null
case $rc in
 1) echo "RESULT $prop $(basename $diff) caught tier=$tier sigs: $sigs";;
 0) echo "RESULT $prop $(basename $diff) missed tier=$tier :: $(echo "$out" | grep -E "$tier:" | tail -1)";;
 *) echo "RESULT $prop $(basename $diff) toolerror rc=$rc :: $(echo "$out" | grep -iE "error|fail" | head -3)";;
esac
