#!/usr/bin/env python3
"""Regenerates MANIFEST.json from the table below (kept in one place so the
manifest stays valid while checks are added)."""
import json, subprocess

NA = {
 "C06": "pure function of one byte string / one transaction value (decode, re-encode, hash): no schedule, clock, fault, crash or multi-party history to simulate; input-space quantifier only (DESIGN.md section 9)",
 "C07": "pure function of bytes (snapshot decoder/encoder/hash): nothing for a simulator to schedule or fault (DESIGN.md section 9)",
 "C08": "parseNetworkMessage and the message builders are pure functions of one byte string / one value; the simulated transport exercises them only incidentally (DESIGN.md section 9)",
 "C13": "pure function of (key vector, mask, responses, message); the system-level consequence (a bad certificate accepted) is covered by C09's independent verifier (DESIGN.md section 9)",
 "C14": "pure function of (keys, signer set, message, seed); no time, schedule or fault dimension (DESIGN.md section 9)",
 "C25": "arithmetic over the batch number and a work vector (schedule monotonicity, pool bound, exact distribution, work-monotone shares): a function of its arguments with no schedule, clock, fault or crash in it; the membership rig does perform real universal mints, but a simulation reaches a handful of the ~10^6 batches and work vectors, so it could only sample inputs (those mints are judged by C17, C21, C22, C28 and C29 instead) (DESIGN.md section 9)",
 "C32": "pure key-derivation and codec functions (DESIGN.md section 9)",
 "C33": "pure fixed-point arithmetic (DESIGN.md section 9)",
}

# id -> (level, technique, level text, level note, design ref)
CHECKS = {}

def check(id, level, technique, text, note, ref):
    CHECKS[id] = dict(level=level, technique=technique, text=text, note=note, ref=ref)

exec(open("/verif/manifest_checks.py").read())

all_ids = [json.loads(l)["id"] for l in open("/verif/properties.jsonl")]
pending_reason = "no check registered yet: simulation rig for this property is still under construction in this session (see DESIGN.md section 8 for the planned check)"
hooks = subprocess.run(["git","-C","/repo","log","--format=%H %s","--grep=^verif hook"],capture_output=True,text=True).stdout.strip().splitlines()
m = {
 "version": 1,
 "setup_cmd": "cd /verif && ./check list",
 "hooks": {
   "guard": "verif",
   "enable": "go build -tags verif -overlay <generated> (GOTOOLCHAIN=local go1.26.8, harness module /verif/sim with replace github.com/MixinNetwork/mixin => /repo; the overlay holds rewritten copies of /repo/storage/*.go, produced at build time by /verif/sim/cmd/instrument from the working tree, in which store mutex acquisitions and Badger transaction boundaries call storage.SimPoint; /repo itself is not modified)",
   "baseline_off_cmd": "cd /repo && go test -vet=off -count=1 -timeout 25m ./...",
   "source_commits": [h.split()[0] for h in hooks][::-1],
   "add_only": True,
 },
 "engines": [
   {"name": "verifsim", "path": "/verif/sim", "serves_properties": sorted(CHECKS), "kind_free_text": "deterministic discrete-event simulator with seeded fault injection over real kernel/p2p/storage code (rigs: cluster R1 with finalization injection and a Byzantine proposer driver, membership rig R1/k, store R3, concurrent store R3c, nonce R4)"},
 ],
 "checks": [],
 "not_applicable": [],
 "notes": "All checks: ./check <ID> [--tier quick|thorough] [--seed N]; replay: ./check <ID> --replay <file>. Exit 0 held / 1 VIOLATION / 2 tool error. Known findings: /verif/known_findings.json.",
}
for id in all_ids:
    if id in CHECKS:
        c = CHECKS[id]
        m["checks"].append({
          "property_id": id,
          "quick_cmd": f"./check {id} --tier quick",
          "thorough_cmd": f"./check {id} --tier thorough",
          "evidence_file": f"/verif/evidence/{id}.json",
          "replay_cmd_template": f"./check {id} --replay {{path}}",
          "engine": "verifsim",
          "level_claimed": {"category": c["level"], "text": c["text"], "design_ref": c["ref"]},
          "level_note": c["note"],
          "technique": c["technique"],
        })
    elif id in NA:
        m["not_applicable"].append({"property_id": id, "reason": NA[id]})
    else:
        m["not_applicable"].append({"property_id": id, "reason": pending_reason})
json.dump(m, open("/verif/MANIFEST.json","w"), indent=1)
print("checks:", len(m["checks"]), "na:", len(m["not_applicable"]))
