package props

import (
	"fmt"
	"time"

	"verifsim/core"
	"verifsim/harness"
	"verifsim/storerig"

	"github.com/MixinNetwork/mixin/common"
	"github.com/MixinNetwork/mixin/crypto"
)

// C26, concurrent part (rig R3c, see conc.go). In the running node every
// chain has its own work aggregator goroutine, and the aggregators of
// different chains credit the SAME signers for the same day at the same time;
// WriteRoundWork takes no lock, relies on Badger's optimistic transactions and
// the caller retries on a conflict. Here 2-4 chains submit their rounds
// (growing prefixes, repeats, next rounds) at the same time, interleaved at the
// Badger transaction boundaries by a seeded scheduler, each task retrying on a
// conflict exactly as the kernel's writeRoundWork does. After every round of
// submissions the per-day credits of every node must be the once-per-snapshot
// model: no credit lost to a conflict, none counted twice by a retry.

func c26Conc(p *harness.Plan) *harness.Outcome {
	c := newCtx("C26")
	f, err := storerig.NewFix(7)
	if err != nil {
		return c.tool(err)
	}
	defer f.Close()
	rng := core.NewRng(p.Seed)
	chains := int(p.P("chains", 3))
	if chains < 2 {
		chains = 2
	}
	type chain struct {
		round uint64
		full  []*common.SnapshotWork
		ts    uint64
	}
	st := make([]*chain, chains)
	base := f.BaseTime()
	for i := range st {
		st[i] = &chain{ts: base + uint64(i)*uint64(time.Second)}
	}
	lead := map[crypto.Hash]map[uint32]uint64{}
	sign := map[crypto.Hash]map[uint32]uint64{}
	credited := map[crypto.Hash]bool{}
	days := map[uint32]bool{}
	add := func(m map[crypto.Hash]map[uint32]uint64, id crypto.Hash, day uint32) {
		if m[id] == nil {
			m[id] = map[uint32]uint64{}
		}
		m[id][day]++
	}
	rounds := int(p.P("rounds", 10))
	conflicts, overlapped, submits := 0, 0, 0
	for r := 0; r < rounds; r++ {
		var tasks [][]*concOp
		var all []*concOp
		type sub struct {
			node  int
			works []*common.SnapshotWork
		}
		var subs []sub
		for node := 0; node < chains; node++ {
			if rng.Chance(0.2) {
				continue
			}
			ch := st[node]
			switch {
			case len(ch.full) > 0 && rng.Chance(0.3): // next round
				ch.round++
				ch.full = nil
				ch.ts += uint64(3 * time.Second)
				fallthrough
			case len(ch.full) == 0 || rng.Chance(0.6): // grow
				for k := 1 + rng.IntN(3); k > 0; k-- {
					ch.ts += uint64(1+rng.IntN(50)) * uint64(time.Millisecond)
					w := &common.SnapshotWork{Timestamp: ch.ts, Signers: []crypto.Hash{f.NodeIds[node]}}
					w.Hash = crypto.Blake3Hash([]byte(fmt.Sprintf("cwork%d-%d-%d", node, ch.round, ch.ts)))
					for o := range f.NodeIds {
						if o != node && rng.Chance(0.7) {
							w.Signers = append(w.Signers, f.NodeIds[o])
						}
					}
					ch.full = append(ch.full, w)
				}
			}
			works := append([]*common.SnapshotWork(nil), ch.full...)
			round, id := ch.round, f.NodeIds[node]
			o := &concOp{name: fmt.Sprintf("submit(chain%d,r%d,%d)", node, round, len(works))}
			retries := 0
			o.fn = func() error {
				for {
					err := f.Store.WriteRoundWork(id, round, works, true)
					if err == nil || !(&concOp{err: err}).conflict() || retries > 30 {
						return err
					}
					retries++
					conflicts++
				}
			}
			tasks = append(tasks, []*concOp{o})
			all = append(all, o)
			subs = append(subs, sub{node, works})
		}
		if len(tasks) == 0 {
			continue
		}
		points, err := runConcurrentTasks(rng, tasks, 2000)
		if err != nil {
			return c.tool(fmt.Errorf("round %d: %v (%d points)", r, err, len(points)))
		}
		for i, o := range all {
			c.logf("r%d %s [%d,%d] err=%v", r, o.name, o.call, o.ret, o.err != nil)
			if o.panicked != "" {
				return c.viol("write-panic", "round %d: %s panicked: %s", r, o.name, o.panicked)
			}
			if o.err != nil {
				return c.viol("write-error", "round %d: %s failed: %v", r, o.name, o.err)
			}
			for j := range all {
				if i < j && all[i].call < all[j].ret && all[j].call < all[i].ret {
					overlapped++
				}
			}
		}
		for _, s := range subs {
			submits++
			for _, w := range s.works {
				if credited[w.Hash] {
					continue
				}
				credited[w.Hash] = true
				day := uint32(w.Timestamp / c26Day)
				days[day] = true
				for _, sg := range w.Signers {
					if sg == f.NodeIds[s.node] {
						add(lead, sg, day)
					} else {
						add(sign, sg, day)
					}
				}
			}
		}
		for day := range days {
			got, err := f.Store.ListNodeWorks(f.NodeIds, day)
			if err != nil {
				return c.viol("list-error", "%v", err)
			}
			c.out.Evals++
			for _, id := range f.NodeIds {
				if got[id][0] != lead[id][day] || got[id][1] != sign[id][day] {
					return c.viol("work-mismatch:concurrent", "round %d: node %s day %d has (lead,sign)=(%d,%d), model (%d,%d) after concurrent submissions of %d chains (%d optimistic conflicts retried so far)", r, id.String()[:8], day, got[id][0], got[id][1], lead[id][day], sign[id][day], len(subs), conflicts)
				}
			}
		}
	}
	c.out.Probes["conc_submissions"] += submits
	c.out.Probes["conc_optimistic_conflicts_retried"] += conflicts
	c.out.Probes["conc_overlapping_pairs"] += overlapped
	c.out.Faults["interleaved_store_calls"] += overlapped
	return c.done(submits > 2 && overlapped > 0, map[string]any{"mode": "concurrent", "rounds": rounds, "submissions": submits, "conflicts_retried": conflicts, "overlapping_pairs": overlapped})
}
