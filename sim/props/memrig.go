package props

import (
	"fmt"
	"os"
	"sort"
	"time"

	"filippo.io/edwards25519"

	"verifsim/cluster"
	"verifsim/core"

	"github.com/MixinNetwork/mixin/common"
	"github.com/MixinNetwork/mixin/config"
	"github.com/MixinNetwork/mixin/crypto"
)

// memRig drives long-horizon membership histories (rig R1/k): real nodes for
// the genesis members, further identities that exist only as keys held by
// the simulator, the clock jumped from window to window (idle-time skipping)
// and every ledger record — ordinary snapshots, pledge, accept, removal —
// manufactured by finalization injection with certificates computed from the
// nodes' own key vector at the snapshot timestamp. The membership
// transactions are the real ones: pledge built by the client, accept and
// remove obtained from a real node's own builder.

type memIdent struct {
	idx    int
	signer common.Address
	payee  common.Address
	id     crypto.Hash
	state  string // "", PLEDGING, ACCEPTED, REMOVED, CANCELLED
	since  uint64
	pledge *common.VersionedTransaction
}

type memRecord struct {
	kind string
	ts   uint64
	who  int
	snap crypto.Hash
	tx   crypto.Hash
}

type memRig struct {
	r         *crun
	c         *cluster.Cluster
	inj       *injector
	rng       *core.Rng
	idents    []*memIdent
	byPub     map[crypto.Key]*memIdent
	records   []memRecord
	applied   []*injected // expected on every node
	refused   []*injected // must be applied nowhere
	cust      []*custState
	mintDay   uint64 // day of the latest finalized mint
	purge     bool   // a candidate opened a round of its own: pools must be purged
	ownAccept bool   // build acceptance transactions without the node's builder when it refuses
	// beforeMint, when set, runs after the valid mint of the day has been built and signed and before it is
	// finalized (forbidden variants of it are tried here)
	beforeMint func(tx *common.VersionedTransaction, elected *memIdent)
	// proposalShare: share of forbidden variants (and of valid consensus operations) that also go through
	// the proposal path, i.e. a real signing round run by the simulator for the chain's member
	proposalShare float64
	// certOverride, when set, certifies the next candidate instead of certify (forged certificates)
	certOverride func(s *common.Snapshot) *crypto.CosiSignature
	quietChain   *crypto.Hash // leaders(): a member whose chain gets no new snapshots for now
	forceK       int          // certify: exactly this many signers (0 = by the threshold)
	seq          int
}

func newMemRig(r *crun, seed uint64) (*memRig, error) {
	c := r.c
	rng := core.NewRng(core.SplitMix64(seed ^ 0x3e3))
	inj, err := newInjector(c, rng.Sub(1))
	if err != nil {
		return nil, err
	}
	m := &memRig{r: r, c: c, inj: inj, rng: rng, byPub: map[crypto.Key]*memIdent{}}
	epoch := uint64(c.Epoch.UnixNano())
	for i, n := range c.Nodes {
		id := &memIdent{idx: i, signer: n.Signer, payee: n.Payee, id: n.Id}
		if i < c.Cfg.Nodes {
			id.state, id.since = common.NodeStateAccepted, epoch
		}
		m.idents = append(m.idents, id)
		m.byPub[n.Signer.PublicSpendKey] = id
	}
	inj.certFn = func(s *common.Snapshot) *crypto.CosiSignature { return m.certify(s, 0, -1) }
	return m, nil
}

func (m *memRig) ref() *cluster.SNode {
	for _, n := range m.c.Nodes[:m.c.Cfg.Nodes] {
		if n.Alive {
			return n
		}
	}
	return nil
}

func (m *memRig) now() uint64 { return m.c.NowNano() }

// jumpTo moves all clocks forward to the next instant that is at hour `hour`
// (plus a random part of the hour) of a day at least minAhead from now.
func (m *memRig) jumpTo(hour int, minAhead time.Duration) {
	epoch := uint64(m.c.Epoch.UnixNano())
	day := uint64(24 * time.Hour)
	if minAhead < 0 {
		minAhead = 0
	}
	target := m.now() + uint64(minAhead)
	d := (target - epoch) / day
	t := epoch + d*day + uint64(hour)*uint64(time.Hour) + uint64(m.rng.Int64N(int64(50*time.Minute))) + uint64(time.Minute)
	for t < target {
		t += day
	}
	m.c.JumpTime(time.Duration(t - m.now()))
	m.c.Run(m.c.Q.Now + 1500*time.Millisecond)
}

// certify builds a certificate over s from the reference node's own key
// vector for (chain, round, timestamp). drop > 0 removes that many signers
// below the threshold; corrupt >= 0 replaces that signer's key.
func (m *memRig) certify(s *common.Snapshot, drop int, corrupt int) *crypto.CosiSignature {
	ref := m.ref()
	ch := ref.Node.SimChain(s.NodeId)
	if ch == nil {
		return nil
	}
	nodes := ch.SimConsensusNodes(s.RoundNumber, s.Timestamp)
	T := ref.Node.ConsensusThreshold(s.Timestamp, true)
	if T > len(nodes) {
		return nil
	}
	k := T + m.rng.IntN(len(nodes)-T+1)
	if drop > 0 {
		k = T - drop
	}
	if m.forceK > 0 && m.forceK <= len(nodes) {
		k = m.forceK
	}
	if k < 1 {
		k = 1
	}
	perm := m.rng.Perm(len(nodes))[:k]
	// the chain's own node takes part in its certificate (see injector.signersFor)
	own := -1
	for pos, cn := range nodes {
		if cn.IdForNetwork == s.NodeId {
			own = pos
		}
	}
	if own >= 0 && drop == 0 {
		has := false
		for _, p := range perm {
			has = has || p == own
		}
		if !has {
			perm[m.rng.IntN(len(perm))] = own
		}
	}
	sort.Ints(perm)
	if os.Getenv("VERIF_DEBUG") != "" {
		fmt.Fprintf(os.Stderr, "certify chain %s round %d nodes %d T %d own %d drop %d perm %v\n", s.NodeId.String()[:6], s.RoundNumber, len(nodes), T, own, drop, perm)
	}
	sum := edwards25519.NewScalar()
	for i, pos := range perm {
		id := m.byPub[nodes[pos].Signer.PublicSpendKey]
		if id == nil {
			return nil
		}
		priv := id.signer.PrivateSpendKey
		if i == corrupt {
			priv = crypto.NewKeyFromSeed(append(make([]byte, 63), byte(pos+1)))
		}
		sc, err := edwards25519.NewScalar().SetCanonicalBytes(priv[:])
		if err != nil {
			return nil
		}
		sum.Add(sum, sc)
	}
	var agg crypto.Key
	copy(agg[:], sum.Bytes())
	h := s.PayloadHash()
	return &crypto.CosiSignature{Signature: agg.Sign(h), Mask: maskOf(perm)}
}

// certifyAt builds a certificate over s that is complete and correct for the
// consensus key vector of ANOTHER instant (at least the threshold of that
// instant, all signers genuine). It returns nil when the vector of that instant
// equals the one at the snapshot's own timestamp.
func (m *memRig) certifyAt(s *common.Snapshot, other uint64) *crypto.CosiSignature {
	ref := m.ref()
	ch := ref.Node.SimChain(s.NodeId)
	if ch == nil {
		return nil
	}
	now := ch.SimConsensusNodes(s.RoundNumber, s.Timestamp)
	then := ch.SimConsensusNodes(s.RoundNumber, other)
	same := len(now) == len(then)
	for i := 0; same && i < len(now); i++ {
		same = now[i].IdForNetwork == then[i].IdForNetwork
	}
	if same || len(then) == 0 {
		return nil
	}
	T := ref.Node.ConsensusThreshold(other, true)
	if T > len(then) {
		return nil
	}
	perm := m.rng.Perm(len(then))[:T+m.rng.IntN(len(then)-T+1)]
	sort.Ints(perm)
	sum := edwards25519.NewScalar()
	for _, pos := range perm {
		id := m.byPub[then[pos].Signer.PublicSpendKey]
		if id == nil {
			return nil
		}
		sc, err := edwards25519.NewScalar().SetCanonicalBytes(id.signer.PrivateSpendKey[:])
		if err != nil {
			return nil
		}
		sum.Add(sum, sc)
	}
	var agg crypto.Key
	copy(agg[:], sum.Bytes())
	if os.Getenv("VERIF_DEBUG") != "" {
		fmt.Fprintf(os.Stderr, "certifyAt chain %s round %d ts %d other %d (delta %d s) now %d keys then %d keys Tthen %d Tnow %d perm %v\n", s.NodeId.String()[:6], s.RoundNumber, s.Timestamp, other, (int64(other)-int64(s.Timestamp))/1e9, len(now), len(then), T, ref.Node.ConsensusThreshold(s.Timestamp, true), perm)
	}
	return &crypto.CosiSignature{Signature: agg.Sign(s.PayloadHash()), Mask: maskOf(perm)}
}

// send delivers an injected snapshot to every genesis node.
func (m *memRig) send(it *injected) {
	for to := 0; to < m.c.Cfg.Nodes; to++ {
		for _, e := range it.extra {
			m.c.Inject(m.c.External(), m.c.Nodes[to], buildTxBundle([]*common.VersionedTransaction{e}, true), time.Duration(to)*time.Millisecond)
		}
		m.inj.deliver(m.c.External(), m.c.Nodes[to], it.tx, it.snap, time.Duration(to)*time.Millisecond+time.Millisecond)
	}
}

func (m *memRig) settle(it *injected, budget time.Duration) bool {
	deadline := m.c.Q.Now + budget
	for m.c.Q.Now < deadline && !m.c.Halt {
		m.c.Run(m.c.Q.Now + 300*time.Millisecond)
		if m.everywhere(it) {
			return true
		}
	}
	return m.everywhere(it)
}

func (m *memRig) everywhere(it *injected) bool {
	for i := 0; i < m.c.Cfg.Nodes; i++ {
		n := m.c.Nodes[i]
		if !n.Alive {
			continue
		}
		if s, _ := n.Store.ReadSnapshot(it.snap.Hash); s == nil {
			return false
		}
	}
	return true
}

func (m *memRig) anywhere(it *injected) int {
	for i := 0; i < m.c.Cfg.Nodes; i++ {
		n := m.c.Nodes[i]
		if n.Alive {
			if s, _ := n.Store.ReadSnapshot(it.snap.Hash); s != nil {
				return i
			}
		}
	}
	return -1
}

// ordinary injects a deposit snapshot on a chain of an accepted member.
func (m *memRig) ordinary(sel int) *injected {
	acc := m.leaders()
	if len(acc) == 0 {
		return nil
	}
	id := acc[sel%len(acc)]
	ch := m.inj.chainFor(id.id)
	if ch == nil {
		return nil
	}
	m.inj.now = m.now()
	it, err := m.inj.nextWith(m.inj.chainIndex(id.id), false, nil)
	if err != nil {
		return nil
	}
	m.send(it)
	m.applied = append(m.applied, it)
	return it
}

func (m *memRig) accepted() []*memIdent {
	var out []*memIdent
	for _, id := range m.idents {
		if id.state == common.NodeStateAccepted {
			out = append(out, id)
		}
	}
	sort.Slice(out, func(i, j int) bool {
		if out[i].since != out[j].since {
			return out[i].since < out[j].since
		}
		return out[i].id.String() < out[j].id.String()
	})
	return out
}

// leaders are the accepted members that can lead snapshots on their own chain
// now: genesis members, and members accepted long enough ago to take part in
// consensus (an honest network certifies nothing on the chain of a member that
// is not consensus-ready yet).
func (m *memRig) leaders() []*memIdent {
	var out []*memIdent
	epoch := uint64(m.c.Epoch.UnixNano())
	for _, id := range m.accepted() {
		if m.quietChain != nil && id.id == *m.quietChain {
			continue // this member leads nothing for now (a snapshot of its chain is being held back somewhere)
		}
		if id.since == epoch || id.since+uint64(config.KernelNodeAcceptPeriodMinimum)+uint64(time.Minute) < m.now() {
			out = append(out, id)
		}
	}
	return out
}

func (m *memRig) pledging() *memIdent {
	for _, id := range m.idents {
		if id.state == common.NodeStatePledging {
			return id
		}
	}
	return nil
}

func (m *memRig) fresh() *memIdent {
	for _, id := range m.idents {
		if id.state == "" {
			return id
		}
	}
	return nil
}

// lastChange is the latest membership state change.
func (m *memRig) lastChange() uint64 {
	var t uint64
	for _, id := range m.idents {
		if id.since > t {
			t = id.since
		}
	}
	return t
}

// placeOn injects a single-transaction snapshot holding tx on the chain of
// `owner` at the current time and waits for it.
func (m *memRig) placeOn(owner crypto.Hash, tx *common.VersionedTransaction, expect bool) *injected {
	ch := m.inj.chainFor(owner)
	if ch == nil {
		return nil
	}
	m.inj.now = m.now()
	var it *injected
	var err error
	if expect {
		it, err = m.inj.nextWith(m.inj.chainIndex(owner), false, tx)
		if err != nil {
			return nil
		}
	} else {
		return m.candidate(owner, []*common.VersionedTransaction{tx}, 0)
	}
	if leader := m.identOf(owner); leader != nil && m.proposalShare > 0 && m.rng.Chance(m.proposalShare) && isConsensusClass(tx) {
		// the valid operation takes the proposal path: real nodes sign it in a real round
		s := copySnapshot(it.snap)
		s.Signature = nil
		if b := m.proposeViaCosi(leader, s, []*common.VersionedTransaction{tx}, 3*time.Second); b != nil {
			m.r.out.Probes["valid_operation_proposed_via_signing_round"]++
			if b.final != nil {
				m.r.out.Probes["valid_operation_certified_by_real_nodes"]++
				it.snap = b.final
			}
		}
	}
	m.send(it)
	return it
}

// xinCoin finalizes a XIN deposit of exactly the pledge amount.
func (m *memRig) xinCoin() *cluster.Coin {
	acc := m.leaders()
	m.seq++
	tx, coin := m.c.MakeDeposit(cluster.AssetXIN, common.KernelNodePledgeAmount, fmt.Sprintf("pledge-fund-%d", m.seq), 0, []int{0}, 1)
	it := m.placeOn(acc[m.rng.IntN(len(acc))].id, tx, true)
	if it == nil || !m.settle(it, 20*time.Second) {
		return nil
	}
	m.applied = append(m.applied, it)
	return coin
}

func (m *memRig) lastConsensusTx() []crypto.Hash {
	return append([]crypto.Hash{}, m.ref().Node.SimLastConsensusSnapshot().Transactions...)
}

// buildPledge creates the client-made pledge transaction for an identity.
func (m *memRig) buildPledge(id *memIdent, coin *cluster.Coin, refs []crypto.Hash) *common.VersionedTransaction {
	tx := common.NewTransactionV5(common.XINAssetId)
	tx.AddInput(coin.Tx, coin.Index)
	tx.AddOutputWithType(common.OutputTypeNodePledge, nil, common.Script{}, common.KernelNodePledgeAmount, nil)
	tx.Extra = append(append([]byte{}, id.signer.PublicSpendKey[:]...), id.payee.PublicSpendKey[:]...)
	tx.References = refs
	signed := &common.SignedTransaction{Transaction: *tx}
	if err := signed.SignUTXO(coin.UTXO, []*common.Address{m.c.User(0)}); err != nil {
		panic(err)
	}
	return signed.AsVersioned()
}

// canPledge / canAccept / canRemove encode when the protocol documents allow
// the operation (used to schedule valid operations; the nodes decide).
func (m *memRig) quietFor(d time.Duration) bool {
	return m.now() > m.lastChange()+uint64(d)
}

func (m *memRig) record(kind string, who *memIdent, it *injected) {
	m.records = append(m.records, memRecord{kind: kind, ts: it.snap.Timestamp, who: who.idx, snap: it.snap.Hash, tx: it.tx.PayloadHash()})
	m.applied = append(m.applied, it)
	m.c.Trace.Logf(m.c.Q.Now, "membership %s ident %d ts %d", kind, who.idx, it.snap.Timestamp)
}

// pledge performs a valid pledge of a fresh identity at a pledge hour.
func (m *memRig) pledge() bool {
	id := m.fresh()
	if id == nil || m.pledging() != nil || len(m.accepted()) >= config.KernelMaximumNodesCount {
		return false
	}
	hours := []int{0, 1, 2, 3, 4, 5, 10, 11, 20, 21, 22}
	m.jumpTo(hours[m.rng.IntN(len(hours))], 12*time.Hour+time.Minute-time.Duration(m.now()-m.lastChange()))
	coin := m.xinCoin()
	if coin == nil {
		return false
	}
	ts := m.now()
	elected := m.ref().Node.SimElect(common.TransactionTypeNodePledge, ts)
	tx := m.buildPledge(id, coin, m.lastConsensusTx())
	it := m.placeOn(elected, tx, true)
	if it == nil || !m.settle(it, 20*time.Second) {
		m.r.out.Probes["valid_pledge_not_applied"]++
		return false
	}
	id.state, id.since, id.pledge = common.NodeStatePledging, it.snap.Timestamp, tx
	m.record("pledge", id, it)
	return true
}

// acceptSnapshot builds the round-zero acceptance snapshot of the pledging node.
func (m *memRig) acceptSnapshot(id *memIdent, ts uint64) (*injected, error) {
	tx, err := m.ref().Node.SimBuildAccept(id.id, ts, true)
	if err != nil && id.pledge != nil && m.ownAccept {
		// the node's builder refuses (e.g. outside the window): the same
		// transaction built by the simulator from the pledge
		own := common.NewTransactionV5(common.XINAssetId)
		own.AddInput(id.pledge.PayloadHash(), 0)
		own.AddOutputWithType(common.OutputTypeNodeAccept, nil, common.Script{}, id.pledge.Outputs[0].Amount, []byte{})
		own.Extra = id.pledge.Extra
		own.References = m.lastConsensusTx()
		tx, err = own.AsVersioned(), nil
	}
	if err != nil {
		return nil, err
	}
	sig := id.signer.PrivateSpendKey.Sign(tx.PayloadHash())
	signed := tx.SignedTransaction
	signed.SignaturesMap = []map[uint16]*crypto.Signature{{0: &sig}}
	ver := signed.AsVersioned()
	s := &common.Snapshot{Version: common.SnapshotVersionCommonEncoding, NodeId: id.id, RoundNumber: 0, Timestamp: ts}
	s.AddTransaction(ver.PayloadHash())
	s.Hash = s.PayloadHash()
	s.Signature = m.certify(s, 0, -1)
	if s.Signature == nil {
		return nil, fmt.Errorf("no certificate")
	}
	return &injected{snap: s, tx: ver, applied: map[int]bool{}}, nil
}

func (m *memRig) accept() bool {
	id := m.pledging()
	if id == nil {
		return false
	}
	m.jumpTo(13+m.rng.IntN(7), 12*time.Hour+time.Minute-time.Duration(m.now()-id.since))
	ts := m.now()
	if m.r.plan.P("future_accept", 0) == 1 && m.rng.Chance(0.5) {
		// the pledging node's clock runs ahead: its acceptance is stamped up to a minute in the future of
		// everybody else's clock (round zero of a pledging chain is allowed that much)
		ts += uint64(31*time.Second) + uint64(m.rng.Int64N(int64(27*time.Second)))
		m.r.fault("clock.acceptance_stamped_in_the_future", m.c.Q.Now)
	}
	it, err := m.acceptSnapshot(id, ts)
	if err != nil {
		m.r.out.Probes["accept_build_failed"]++
		return false
	}
	m.send(it)
	if !m.settle(it, 20*time.Second) {
		m.r.out.Probes["valid_accept_not_applied"]++
		return false
	}
	id.state, id.since = common.NodeStateAccepted, ts
	m.record("accept", id, it)
	return true
}

func (m *memRig) remove() bool {
	acc := m.accepted()
	if len(acc) <= config.KernelMinimumNodesCount || m.pledging() != nil {
		return false
	}
	m.jumpTo(13+m.rng.IntN(7), 12*time.Hour+time.Minute-time.Duration(m.now()-m.lastChange()))
	ts := m.now()
	ref := m.ref()
	elected := ref.Node.SimElect(common.TransactionTypeNodeRemove, ts)
	tx, err := ref.Node.SimBuildRemove(elected, ts)
	if err != nil {
		m.r.out.Probes["remove_build_failed"]++
		return false
	}
	it := m.placeOn(elected, tx, true)
	if it == nil || !m.settle(it, 20*time.Second) {
		m.r.out.Probes["valid_remove_not_applied"]++
		return false
	}
	var spend crypto.Key
	copy(spend[:], tx.Extra[:32])
	victim := m.byPub[spend]
	if victim == nil {
		victim = acc[0]
	}
	victim.state, victim.since = common.NodeStateRemoved, it.snap.Timestamp
	m.record("remove", victim, it)
	return true
}

// refuseCandidate injects a snapshot that the rules forbid and reports where
// (if anywhere) it was nevertheless stored.
func (m *memRig) refuseCandidate(it *injected, wait time.Duration) int {
	if it == nil {
		return -2
	}
	m.send(it)
	m.c.Run(m.c.Q.Now + wait)
	m.refused = append(m.refused, it)
	where := m.anywhere(it)
	if m.purge {
		m.purgePools()
	}
	return where
}

// multi builds a validly certified snapshot holding several transactions on
// the chain of owner (not adopted by the chain model).
func (m *memRig) multi(owner crypto.Hash, txs []*common.VersionedTransaction, ts uint64) *injected {
	return m.candidate(owner, txs, ts)
}

// candidate builds (without sending) a validly certified snapshot that the
// rules forbid; the chain model does not adopt it. A node tries only the
// first pending snapshot of a round it has not opened yet, so a certified but
// invalid snapshot that would open a round shadows every later snapshot of
// that round - a state honest signers cannot produce. To keep the history
// realistic the candidate therefore joins the chain's open round: a fresh
// ordinary snapshot opens a round at the current instant and the candidate
// carries the same round number and references. With an explicit timestamp
// in the past that is impossible; the candidate then opens a round of its own
// and the nodes are restarted afterwards (purge), which drops their pools.
func (m *memRig) candidate(owner crypto.Hash, txs []*common.VersionedTransaction, ts uint64) *injected {
	ch := m.inj.chainFor(owner)
	if ch == nil {
		return nil
	}
	var number uint64
	var refs *common.RoundLink
	if ts == 0 {
		m.inj.now = m.now()
		open, err := m.inj.nextWith(m.inj.chainIndex(owner), true, nil)
		if err != nil {
			return nil
		}
		m.send(open)
		if !m.settle(open, 10*time.Second) {
			m.r.out.Probes["round_opener_not_applied"]++
			return nil
		}
		m.applied = append(m.applied, open)
		ts = m.now()
		if ts <= ch.lastTime {
			ts = ch.lastTime + 1
		}
		if start, _ := ch.span(); ts >= start+config.SnapshotRoundGap || m.dayOf(ts) != m.dayOf(start) {
			m.r.out.Probes["round_closed_before_candidate"]++
			return nil
		}
		number, refs = ch.number, ch.refs
	} else {
		number, refs = ch.number, ch.refs
		if len(ch.snaps) > 0 {
			_, final := roundHashRef(ch.id, ch.number, ch.snaps)
			ext := m.externalBefore(ch, ts)
			if ext == nil {
				return nil
			}
			number, refs = ch.number+1, &common.RoundLink{Self: final, External: ext.hash}
		}
		m.purge = true
	}
	s := &common.Snapshot{Version: common.SnapshotVersionCommonEncoding, NodeId: owner, RoundNumber: number, References: refs.Copy(), Timestamp: ts}
	hs := make([]crypto.Hash, len(txs))
	for i, t := range txs {
		hs[i] = t.PayloadHash()
	}
	sort.Slice(hs, func(i, j int) bool { return string(hs[i][:]) < string(hs[j][:]) })
	for _, h := range hs {
		s.AddTransaction(h)
	}
	s.Hash = s.PayloadHash()
	if m.certOverride != nil {
		s.Signature = m.certOverride(s)
	} else {
		s.Signature = m.certify(s, 0, -1)
	}
	if s.Signature == nil {
		return nil
	}
	return &injected{snap: s, tx: txs[0], extra: txs[1:], chain: ch, applied: map[int]bool{}}
}

// purgePools restarts every live node, which empties the in-memory pools.
func (m *memRig) purgePools() {
	for i := 0; i < m.c.Cfg.Nodes && !m.c.Halt; i++ {
		n := m.c.Nodes[i]
		if !n.Alive {
			continue
		}
		m.c.Crash(n, false)
		m.r.fault("crash.step_boundary", m.c.Q.Now)
		if err := m.c.Restart(n); err != nil {
			m.c.Violate("C22", "restart-failed", err.Error(), n)
			return
		}
	}
	m.c.Run(m.c.Q.Now + time.Second)
	m.purge = false
}

// modelAccepted lists the identities that are accepted at instant ts
// according to the rig's own record of finalized operations (a record is
// visible strictly after its timestamp), oldest first.
func (m *memRig) modelAccepted(ts uint64) []*memIdent {
	type st struct {
		state string
		since uint64
	}
	cur := map[int]st{}
	epoch := uint64(m.c.Epoch.UnixNano())
	for i := 0; i < m.c.Cfg.Nodes; i++ {
		if epoch < ts {
			cur[i] = st{common.NodeStateAccepted, epoch}
		}
	}
	for _, rec := range m.records {
		if rec.ts >= ts {
			continue
		}
		switch rec.kind {
		case "pledge":
			cur[rec.who] = st{common.NodeStatePledging, rec.ts}
		case "accept":
			cur[rec.who] = st{common.NodeStateAccepted, rec.ts}
		case "remove":
			cur[rec.who] = st{common.NodeStateRemoved, rec.ts}
		}
	}
	var out []*memIdent
	since := map[int]uint64{}
	for i, s := range cur {
		if s.state == common.NodeStateAccepted {
			out = append(out, m.idents[i])
			since[i] = s.since
		}
	}
	sort.Slice(out, func(a, b int) bool {
		if since[out[a].idx] != since[out[b].idx] {
			return since[out[a].idx] < since[out[b].idx]
		}
		return out[a].id.String() < out[b].id.String()
	})
	return out
}

// externalBefore picks an external reference for a snapshot of ch stamped at
// an instant in the past: the newest closed round of another chain that
// started no later than ts and is not older than what ch already links to.
func (m *memRig) externalBefore(ch *injChain, ts uint64) *extRef {
	ref := m.ref()
	var cands []*extRef
	for _, o := range m.inj.chains {
		if o.id == ch.id || o.number == 0 {
			continue
		}
		for r := o.number - 1; r >= ch.links[o.id]; r-- {
			snaps, err := ref.Store.ReadSnapshotsForNodeRound(o.id, r)
			if err == nil && len(snaps) > 0 {
				if start, h := roundHashRef(o.id, r, snaps); start <= ts {
					cands = append(cands, &extRef{o.id, r, h})
					break
				}
			}
			if r == 0 {
				break
			}
		}
	}
	if len(cands) == 0 {
		return nil
	}
	return cands[m.rng.IntN(len(cands))]
}

func (m *memRig) identOf(id crypto.Hash) *memIdent {
	for _, x := range m.idents {
		if x.id == id {
			return x
		}
	}
	return nil
}

func (m *memRig) dayOf(ts uint64) uint64 {
	return (ts - uint64(m.c.Epoch.UnixNano())) / uint64(24*time.Hour)
}

// ordinaryOn injects a deposit snapshot on the chain of one member,
// optionally closing its head round first.
func (m *memRig) ordinaryOn(id *memIdent, newRound bool) *injected {
	ch := m.inj.chainFor(id.id)
	if ch == nil {
		return nil
	}
	m.inj.now = m.now()
	it, err := m.inj.nextWith(m.inj.chainIndex(id.id), newRound && len(ch.snaps) > 0, nil)
	if err != nil {
		return nil
	}
	m.send(it)
	m.applied = append(m.applied, it)
	return it
}

// lap makes every accepted member lead one snapshot in a round of its own.
func (m *memRig) lap() bool {
	var last []*injected
	for _, id := range m.leaders() {
		if it := m.ordinaryOn(id, true); it != nil {
			last = append(last, it)
		}
	}
	for _, it := range last {
		if !m.settle(it, 20*time.Second) {
			return false
		}
	}
	// the next lap opens new rounds: let a full round gap pass
	m.c.Run(m.c.Q.Now + time.Duration(config.SnapshotRoundGap) + 200*time.Millisecond)
	return true
}

// prepareMint manufactures what the universal mint of the coming day needs:
// every accepted member leads rounds on the day before (work credits of day
// D-1) and three rounds on day D before the mint hours (work credits of day D
// and a round-space checkpoint in batch D), then the real work and round-space
// aggregators of every node catch up.
func (m *memRig) prepareMint() bool {
	m.jumpTo(1+m.rng.IntN(4), 0)
	for i := 0; i < 2; i++ {
		if !m.lap() {
			return false
		}
	}
	m.jumpTo(1+m.rng.IntN(4), 18*time.Hour)
	for i := 0; i < 3; i++ {
		if !m.lap() {
			return false
		}
	}
	m.c.AggregateAll(12)
	return !m.c.Halt
}

// mint performs the valid universal mint of the current day (possible only
// after the legacy period, i.e. for histories that start late enough).
func (m *memRig) mint() bool {
	if m.dayOf(m.now()) <= 1707 {
		m.r.out.Probes["mint_before_legacy_end"]++
		return false
	}
	if !m.prepareMint() {
		m.r.out.Probes["mint_preparation_failed"]++
		return false
	}
	m.jumpTo(config.KernelMintTimeBegin+m.rng.IntN(config.KernelMintTimeEnd-config.KernelMintTimeBegin), 0)
	ts := m.now()
	ref := m.ref()
	tx := ref.Node.SimBuildMint(ts)
	if tx == nil {
		m.r.out.Probes["mint_not_possible"]++
		return false
	}
	elected := ref.Node.SimElect(common.TransactionTypeMint, ts)
	who := m.identOf(elected)
	if who == nil {
		return false
	}
	signed := &common.SignedTransaction{Transaction: tx.Transaction}
	if err := signed.SignRaw(who.signer.PrivateSpendKey); err != nil {
		return false
	}
	tx = signed.AsVersioned()
	if m.beforeMint != nil {
		m.beforeMint(tx, who)
		if m.c.Halt {
			return false
		}
		if m.now()/uint64(time.Hour) != ts/uint64(time.Hour) {
			// the variants took simulated time: rebuild for the current instant (same day, same batch)
			ts = m.now()
			if rebuilt := ref.Node.SimBuildMint(ts); rebuilt != nil && ref.Node.SimElect(common.TransactionTypeMint, ts) == elected {
				signed := &common.SignedTransaction{Transaction: rebuilt.Transaction}
				if err := signed.SignRaw(who.signer.PrivateSpendKey); err == nil {
					tx = signed.AsVersioned()
				}
			}
		}
	}
	it := m.placeOn(elected, tx, true)
	if it == nil || !m.settle(it, 20*time.Second) {
		m.r.out.Probes["valid_mint_not_applied"]++
		return false
	}
	m.applied = append(m.applied, it)
	m.mintDay = m.dayOf(it.snap.Timestamp)
	m.record("mint", who, it)
	return true
}

// ---- custodian updates -------------------------------------------------

type custEntry struct {
	node *memIdent
	cust common.Address // custodian key pair of the entry
}

type custState struct {
	account common.Address
	entries []custEntry
	tx      crypto.Hash
	ts      uint64
}

// custNow is the rig's model of the current custodian state; index 0 of the
// history is the genesis state.
func (m *memRig) custNow() *custState {
	if len(m.cust) == 0 {
		g := &custState{account: m.c.Domain, ts: uint64(m.c.Epoch.UnixNano())}
		for i := 0; i < m.c.Cfg.Nodes; i++ {
			g.entries = append(g.entries, custEntry{m.idents[i], m.c.Custodians[i]})
		}
		_, _, txs, _ := m.c.Gns.BuildSnapshots()
		g.tx = txs[len(txs)-1].PayloadHash()
		if all, err := m.ref().Store.ListCustodianUpdates(); err == nil && len(all) > 0 {
			g.ts = all[0].Timestamp // position of the genesis record; everything else about it is checked against the model
		}
		m.cust = append(m.cust, g)
	}
	return m.cust[len(m.cust)-1]
}

func (m *memRig) freshAccount(tag string) common.Address {
	m.seq++
	seed := make([]byte, 64)
	m.rng.Bytes(seed)
	a := common.NewAddressFromSeed(seed)
	return a
}

// custPrice is the documented price of moving from prev to next: 100 per
// custodian key that is new, 1 per kept key whose payee changed.
func custPrice(prev *custState, next []custEntry) int {
	old := map[crypto.Key]crypto.Key{}
	for _, e := range prev.entries {
		old[e.cust.PublicSpendKey] = e.node.payee.PublicSpendKey
	}
	total := 0
	for _, e := range next {
		p, ok := old[e.cust.PublicSpendKey]
		if !ok {
			total += 100
		} else if p != e.node.payee.PublicSpendKey {
			total += 1
		}
	}
	return total
}

func (m *memRig) custEncode(e custEntry) []byte {
	return common.EncodeCustodianNode(&e.cust, &e.node.payee, &e.node.signer.PrivateSpendKey, &e.node.payee.PrivateSpendKey, &e.cust.PrivateSpendKey, m.c.NetworkId)
}

// custAssemble encodes an update: account || entries || approval.
func custAssemble(account common.Address, raw [][]byte, approver *common.Address, sorted bool) []byte {
	raw = append([][]byte{}, raw...)
	if sorted {
		sort.SliceStable(raw, func(i, j int) bool { return string(raw[i][1:33]) < string(raw[j][1:33]) })
	}
	extra := append(append([]byte{}, account.PublicSpendKey[:]...), account.PublicViewKey[:]...)
	for _, r := range raw {
		extra = append(extra, r...)
	}
	sig := approver.PrivateSpendKey.Sign(crypto.Blake3Hash(extra))
	return append(extra, sig[:]...)
}

func (m *memRig) custExtra(account common.Address, entries []custEntry, approver *common.Address, sorted bool) []byte {
	raw := make([][]byte, len(entries))
	for i, e := range entries {
		raw[i] = m.custEncode(e)
	}
	return custAssemble(account, raw, approver, sorted)
}

// custTx wraps an extra into a funded, signed custodian update transaction.
func (m *memRig) custTx(account common.Address, extra []byte, coin *cluster.Coin, amount common.Integer, refs []crypto.Hash) *common.VersionedTransaction {
	tx := common.NewTransactionV5(common.XINAssetId)
	tx.AddInput(coin.Tx, coin.Index)
	tx.AddOutputWithType(common.OutputTypeCustodianUpdateNodes, []*common.Address{&account}, common.NewThresholdScript(common.Operator64), amount, append(make([]byte, 63), 1))
	if change := coin.Amount.Sub(amount); change.Sign() > 0 {
		tx.AddScriptOutput([]*common.Address{m.c.User(0)}, common.NewThresholdScript(1), change, append(make([]byte, 63), 2))
	}
	tx.Extra = extra
	tx.References = refs
	signed := &common.SignedTransaction{Transaction: *tx}
	if err := signed.SignUTXO(coin.UTXO, []*common.Address{m.c.User(0)}); err != nil {
		panic(err)
	}
	return signed.AsVersioned()
}

// fund finalizes a XIN deposit of the given amount owned by user 0.
func (m *memRig) fund(amount common.Integer) *cluster.Coin {
	acc := m.leaders()
	m.seq++
	tx, coin := m.c.MakeDeposit(cluster.AssetXIN, amount, fmt.Sprintf("fund-%d", m.seq), 0, []int{0}, 1)
	it := m.placeOn(acc[m.rng.IntN(len(acc))].id, tx, true)
	if it == nil || !m.settle(it, 20*time.Second) {
		return nil
	}
	m.applied = append(m.applied, it)
	return coin
}

// custJump moves to an instant at which custodian updates are allowed
// (outside the mint window and the hour on each side of it).
func (m *memRig) custJump() {
	hours := []int{0, 1, 2, 3, 4, 11, 12, 13, 15, 18, 20, 22, 23}
	m.jumpTo(hours[m.rng.IntN(len(hours))], 0)
}

// custNext draws the next custodian state: a new account, entries for a
// random set of at least seven known members; custodian keys are kept, moved
// to another member or fresh.
func (m *memRig) custNext() (common.Address, []custEntry) {
	prev := m.custNow()
	acc := m.accepted()
	perm := m.rng.Perm(len(acc))
	k := 7 + m.rng.IntN(len(acc)-6)
	var pool []common.Address
	for _, e := range prev.entries {
		pool = append(pool, e.cust)
	}
	m.rng.Shuffle(len(pool), func(i, j int) { pool[i], pool[j] = pool[j], pool[i] })
	prevOf := map[int]common.Address{}
	for _, e := range prev.entries {
		prevOf[e.node.idx] = e.cust
	}
	used := map[crypto.Key]bool{}
	var entries []custEntry
	for _, pi := range perm[:k] {
		id := acc[pi]
		var key common.Address
		switch r := m.rng.IntN(10); {
		case r < 5:
			if old, ok := prevOf[id.idx]; ok && !used[old.PublicSpendKey] {
				key = old
			}
		case r < 7:
			for _, cand := range pool {
				if !used[cand.PublicSpendKey] {
					key = cand
					break
				}
			}
		}
		if !key.PublicSpendKey.HasValue() || used[key.PublicSpendKey] {
			key = m.freshAccount("cust")
		}
		used[key.PublicSpendKey] = true
		entries = append(entries, custEntry{id, key})
	}
	return m.freshAccount("custodian"), entries
}

// custodian performs a valid custodian update at an allowed hour.
func (m *memRig) custodian() bool {
	m.custJump()
	return m.custodianNow()
}

// custodianNow performs a valid custodian update at the current instant.
func (m *memRig) custodianNow() bool {
	prev := m.custNow()
	account, entries := m.custNext()
	price := custPrice(prev, entries)
	pay := price + m.rng.IntN(3)*m.rng.IntN(2)
	if pay == 0 {
		pay = 1
	}
	amount := common.NewInteger(uint64(pay))
	coin := m.fund(amount) // the update must be the only output: no change
	if coin == nil {
		m.r.out.Probes["funding_deposit_not_applied"]++
		return false
	}
	ts := m.now()
	extra := m.custExtra(account, entries, &prev.account, true)
	tx := m.custTx(account, extra, coin, amount, m.lastConsensusTx())
	elected := m.ref().Node.SimElect(common.TransactionTypeCustodianUpdateNodes, ts)
	it := m.placeOn(elected, tx, true)
	if it == nil || !m.settle(it, 20*time.Second) {
		m.r.out.Probes["valid_custodian_update_not_applied"]++
		if it != nil {
			m.c.Trace.Logf(m.c.Q.Now, "valid custodian update not applied: snapshot %s tx %s chain %s ts %d refs %v last %v", it.snap.Hash, tx.PayloadHash(), elected, it.snap.Timestamp, tx.References, m.ref().Node.SimLastConsensusSnapshot())
		}
		return false
	}
	m.cust = append(m.cust, &custState{account: account, entries: entries, tx: tx.PayloadHash(), ts: it.snap.Timestamp})
	m.c.Domain = account // deposits are authorized by the current custodian
	m.record("custodian", m.identOf(elected), it)
	return true
}
