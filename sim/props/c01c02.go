package props

import (
	"fmt"
	"time"

	"verifsim/cluster"
	"verifsim/core"
	"verifsim/harness"

	"github.com/MixinNetwork/mixin/common"
	"github.com/MixinNetwork/mixin/crypto"
)

// C01 / C02 — value conservation and spend authorization.
//
// R1 with an adversarial client and Byzantine peers: ledgers with outputs of
// several assets, 1-of-1 and 2-of-3 scripts are grown through the real
// consensus; then honest and forged transactions (derived from the model
// ledger, see adversary.go) are submitted through the RPC admission path,
// pushed as unauthenticated peer bundles into the cache queue (validated by
// the background queue worker) or both, under reordering, partitions, clock
// skew and crash/restart, so that nodes validate against different ledger
// prefixes and re-read amounts and keys from their durable store.
// Oracle: (i) by construction — a forged transaction is never accepted by
// the RPC path, forwarded by a queue worker, persisted or finalized on any
// node; (ii) independently — whatever a node accepts is recomputed from that
// node's own durable records (math/big for amounts, crypto/ed25519 for
// signatures).

func advGen(prop string, forged []string) func(rng *core.Rng, tier string) *harness.Plan {
	return func(rng *core.Rng, tier string) *harness.Plan {
		p := &harness.Plan{Seed: rng.Uint64(), Params: map[string]int64{}}
		baseClusterParams(rng, p)
		delete(p.Params, "drop_ppm")
		dur := time.Duration(45+rng.IntN(25)) * time.Second
		if tier == "thorough" {
			dur = time.Duration(70+rng.IntN(90)) * time.Second
		}
		p.Params["dur_ms"] = int64(dur / time.Millisecond)
		nd := 10 + rng.IntN(8)
		for i := 0; i < nd; i++ {
			c := int64(rng.IntN(4))
			if i%3 == 2 {
				c = 4 // 2-of-3 output
			}
			p.Ops = append(p.Ops, harness.Op{At: int64(rng.Dur(time.Second, 8*time.Second) / time.Microsecond), Kind: "deposit", S: fmt.Sprint("d", i), N: rng.IntN(9), A: int64(i % 3), B: int64(100 + rng.IntN(1900)), C: c})
		}
		na := 14 + rng.IntN(16)
		if tier == "thorough" {
			na = 30 + rng.IntN(60)
		}
		for i := 0; i < na; i++ {
			kind := advValidKinds[rng.IntN(len(advValidKinds))]
			if rng.Chance(0.65) {
				kind = forged[rng.IntN(len(forged))]
			}
			p.Ops = append(p.Ops, harness.Op{At: int64(rng.Dur(14*time.Second, dur) / time.Microsecond), Kind: "adv", S: kind + "#" + fmt.Sprint(i), N: rng.IntN(9), M: rng.IntN(9), B: int64(rng.IntN(3))})
		}
		if prop == "C02" {
			for i := 0; i < 1+rng.IntN(3); i++ {
				p.Ops = append(p.Ops, harness.Op{At: int64(rng.Dur(14*time.Second, dur-8*time.Second) / time.Microsecond), Kind: "lockforge", S: fmt.Sprint("valid#lf", i), N: rng.IntN(9)})
			}
		}
		networkFaults(rng, p, 12*time.Second, dur, rng.IntN(3))
		for i := 0; i < rng.IntN(3); i++ {
			p.Ops = append(p.Ops, harness.Op{At: int64(rng.Dur(14*time.Second, dur) / time.Microsecond), Kind: "crash", N: rng.IntN(9), A: int64(300 + rng.IntN(4000))})
		}
		for i := 0; i < rng.IntN(3); i++ {
			p.Ops = append(p.Ops, harness.Op{At: int64(rng.Dur(10*time.Second, dur) / time.Microsecond), Kind: "skew", N: rng.IntN(9), A: int64(rng.IntN(5000) - 2500)})
		}
		sortOps(p)
		return p
	}
}

// lockForgeMon stops a node between the input locks and the body write of one transaction.
type lockForgeMon struct {
	cluster.BaseMonitor
	c     *cluster.Cluster
	node  *cluster.SNode
	hash  crypto.Hash
	fired bool
}

func (m *lockForgeMon) BeforeStore(n *cluster.SNode, call *cluster.StoreCall) {
	if m.fired || n != m.node || call.Name != "WriteTransaction" {
		return
	}
	if tx := call.Args[0].(*common.VersionedTransaction); tx.PayloadHash() == m.hash {
		m.fired = true
		m.c.CrashNow(n, "lockforge.between_lock_and_body_write")
	}
}

func kindOf(label string) string {
	for i := 0; i < len(label); i++ {
		if label[i] == '#' {
			return label[:i]
		}
	}
	return label
}

func advExec(prop string) func(p *harness.Plan) *harness.Outcome {
	return func(p *harness.Plan) *harness.Outcome {
		r, err := newClusterRun(prop, p)
		if err != nil {
			o := harness.NewOutcome()
			o.ToolError = err.Error()
			return o
		}
		defer r.c.Close()
		c := r.c
		mon := &advMon{r: r, prop: prop, byHash: map[crypto.Hash]*advTx{}, admitted: map[crypto.Hash]bool{}}
		c.AddMonitor(mon)
		if err := c.Boot(); err != nil {
			r.out.ToolError = err.Error()
			return r.out
		}
		rng := core.NewRng(core.SplitMix64(p.Seed ^ 0xad5))
		forgedSent, validSent, validOK := 0, 0, 0
		var validHashes []crypto.Hash
		r.extra["adv"] = func(op harness.Op, idx int) {
			a := advBuild(r, rng, kindOf(op.S), op.S)
			if a == nil {
				a = shapeBuild(r, rng, kindOf(op.S), op.S)
			}
			if a == nil {
				r.out.Probes["adv_skipped_no_coin"]++
				return
			}
			h := a.tx.PayloadHash()
			mon.byHash[h] = a
			for _, s := range a.source {
				if a.valid {
					s.Spent = true
				}
			}
			if a.valid {
				validSent++
				r.coins[1000+idx] = a.coins
				r.txOf[1000+idx] = a.tx
			} else {
				forgedSent++
				r.out.Faults["client.forged."+a.label]++
			}
			n := r.node(op.N)
			if op.B != 1 && n.Alive { // RPC admission path
				_, err := c.Submit(n, a.tx)
				c.Trace.Logf(c.Q.Now, "adv %s n%d rpc err=%v", op.S, n.Idx, err != nil)
				if err == nil {
					mon.admit(n, a.tx, "accepted by the RPC admission path")
					if a.valid {
						validOK++
						r.accepted = append(r.accepted, h)
						validHashes = append(validHashes, h)
					}
				} else if a.valid {
					r.out.Probes["valid_rejected_by_rpc"]++
				}
			}
			if op.B != 0 { // unauthenticated peer bundle into the cache queue
				to := r.node(op.M)
				c.Inject(c.External(), to, buildTxBundle([]*common.VersionedTransaction{a.tx}, false), rng.Dur(0, 200*time.Millisecond))
				c.Trace.Logf(c.Q.Now, "adv %s n%d bundle", op.S, to.Idx)
				if a.valid && op.B == 1 {
					validHashes = append(validHashes, h)
				}
			}
		}
		// "lockforge": an honest transfer is handed to a node which is stopped right after it has locked
		// the inputs for it and before it has stored the body; once the node is back, a copy of the same
		// payload with signatures of a stranger arrives as an unauthenticated peer bundle (same hash, so it
		// meets the locks the genuine transaction left behind)
		r.extra["lockforge"] = func(op harness.Op, idx int) {
			a := advBuild(r, rng, "valid", op.S)
			if a == nil {
				r.out.Probes["adv_skipped_no_coin"]++
				return
			}
			h := a.tx.PayloadHash()
			mon.byHash[h] = a
			for _, src := range a.source {
				src.Spent = true
			}
			v := r.node(op.N)
			if !v.Alive {
				return
			}
			lf := &lockForgeMon{c: c, node: v, hash: h}
			c.AddMonitor(lf)
			if _, err := c.Submit(v, a.tx); err != nil {
				return
			}
			mon.admit(v, a.tx, "accepted by the RPC admission path")
			validSent++
			tries := 0
			var later func()
			later = func() {
				tries++
				if c.Halt || tries > 60 {
					return
				}
				if !lf.fired || !v.Alive {
					c.Q.After(250*time.Millisecond, "lockforge.wait", later)
					return
				}
				signed := &common.SignedTransaction{Transaction: a.tx.Transaction}
				for _, src := range a.source {
					if err := signUTXOLoose(signed, src.UTXO, []*common.Address{c.User(9)}); err != nil {
						return
					}
				}
				forged := signed.AsVersioned()
				if forged.PayloadHash() != h {
					return
				}
				r.out.Faults["client.forged_copy_of_locked_transaction"]++
				forgedSent++
				for k := 0; k < 3; k++ {
					c.Inject(c.External(), v, buildTxBundle([]*common.VersionedTransaction{forged}, false), time.Duration(100+k*700)*time.Millisecond)
				}
				// the client of the genuine transfer retries elsewhere, as it would after a node failure
				c.Q.After(4*time.Second, "lockforge.retry", func() {
					if o := r.node(op.N + 1); o.Alive {
						if _, err := c.Submit(o, a.tx); err == nil {
							r.accepted = append(r.accepted, h)
							validHashes = append(validHashes, h)
							r.coins[2000+idx] = a.coins
							r.txOf[2000+idx] = a.tx
						}
					}
				})
			}
			c.Q.After(300*time.Millisecond, "lockforge.wait", later)
		}
		r.schedule()
		c.Run(time.Duration(p.P("dur_ms", 40000)) * time.Millisecond)
		fin, total := 0, 0
		if !c.Halt {
			fin, total = r.settle(90*time.Second, true)
		}
		// finalized forged transactions (defence in depth; admission points above fire first)
		if !c.Halt {
			for h, a := range mon.byHash {
				if a.valid || (a.class != "conservation" && a.class != "authorization") {
					continue
				}
				for i := 0; i < c.Cfg.Nodes; i++ {
					if c.FinalizedOn(c.Nodes[i], h) {
						c.Violate(map[string]string{"conservation": "C01", "authorization": "C02"}[a.class], "forged-transaction-finalized:"+a.label, fmt.Sprintf("n%d finalized %s", i, h.String()[:8]), c.Nodes[i])
					}
				}
			}
		}
		validFinal := 0
		for _, h := range validHashes {
			if c.FinalizedEverywhere(h) {
				validFinal++
			}
		}
		r.out.Probes["forged_sent"] += forgedSent
		r.out.Probes["valid_sent"] += validSent
		r.out.Probes["valid_accepted_by_rpc"] += validOK
		r.out.Probes["valid_finalized_everywhere"] += validFinal
		r.out.Probes["admissions_rechecked"] += mon.checks
		r.out.Probes["accepted_finalized"] += fin
		r.out.Probes["accepted_total"] += total
		relabelPanic(r, prop)
		return r.finish(forgedSent > 0 && mon.checks > 0 && validFinal > 0, map[string]any{"forged": forgedSent, "valid": validSent, "valid_final": validFinal, "admissions_rechecked": mon.checks})
	}
}

func init() {
	harness.Register(&harness.Property{
		ID:    "C01",
		Level: "exploration",
		Rule: "seeded cluster runs: 10-17 deposits of 3 assets (1-of-1 and 2-of-3 outputs) finalized by real consensus, then 14-29 (thorough 30-89) client transactions, 65% forged (output sum +-1 unit, 2^100..2^400 outputs, inputs of two assets, duplicate input, non-existent input, deposit amount mismatch), sent through the RPC admission path, as unauthenticated peer bundles, or both, under partitions, reordering, skew and crash/restart; every admission point (RPC accept, queue-worker forward, durable persist, finalization) is judged by construction and by an independent math/big recomputation from the admitting node's own records; " +
			"non-trivial = at least one forged transaction sent, one admission re-checked and one honest spend finalized everywhere; distinct = canonical-log digests. The all-decodable-inputs part of the quantifier is sampled only through these generators.",
		Components: clusterComponents,
		Assume:     clusterAssume,
		Gen:        advGen("C01", advConservationKinds),
		Exec:       advExec("C01"),
		QuickRuns:  64, ThoroughRuns: 3000,
		QuickWall: 45 * time.Second, ThoroughWall: 12 * time.Minute,
	})
	harness.Register(&harness.Property{
		ID:    "C02",
		Level: "exploration",
		Rule: "seeded cluster runs as for C01 with authorization forgeries: signed by a non-owner, 1 signature on a 2-of-3 output, empty signature maps, signature index beyond the key list, one flipped signature bit, payload changed after signing, signature maps swapped between inputs of different owners, aggregate signature missing a required signer, aggregate signer offsets shifted; honest per-input and aggregate signatures as positive cases; every admission point is judged by construction and, for per-input maps, by independent crypto/ed25519 verification against the admitting node's stored key lists and thresholds; " +
			"non-trivial as for C01. Aggregate signatures are judged by construction only.",
		Components: clusterComponents,
		Assume:     clusterAssume,
		Gen:        advGen("C02", advAuthorizationKinds),
		Exec:       advExec("C02"),
		QuickRuns:  64, ThoroughRuns: 3000,
		QuickWall: 45 * time.Second, ThoroughWall: 12 * time.Minute,
	})
}

var _ = cluster.AssetBTC
