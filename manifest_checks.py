check("C23", "exploration",
  "deterministic simulation: seeded operation/fault sequences on the real cache store vs. a credit model",
  "Seeded search over interleaved client operation sequences with clean and cache-lost restarts on the real BadgerStore cache API, compared step by step with a reference model derived from the property text; a clean batch is evidence, not proof.",
  "Badger commit atomicity (A1); scheduling at Store-call granularity (A3); cache TTL never fires inside a run.",
  "DESIGN.md section 8 C23")
