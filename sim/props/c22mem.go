package props

import (
	"time"

	"verifsim/core"
	"verifsim/harness"
)

// C22, consensus operations (membership rig). The cluster part of C22 cuts
// nodes while deposits and transfers are finalized. The multi-commit paths of
// the consensus-class operations — above all the acceptance of a new node,
// which starts round 0 of a new chain, stores the accept snapshot, starts
// round 1 and records the consensus operation as separate commits — only occur
// in long-horizon membership histories. Here such a history is produced by the
// membership rig and, right before every pledge / acceptance / removal /
// custodian update / mint, one node is armed to stop before its k-th upcoming
// Badger commit (k small, so the stop lands inside the operation or the
// ordinary snapshots around it). Oracle: the same as the cluster part — the
// node restarts, the graph validator is clean, the ledger scan is consistent —
// and the history still converges on every node.

func c22MemGen(rng *core.Rng, tier string, p *harness.Plan) {
	q := memGen("C22")(rng, tier)
	p.Params, p.Ops = q.Params, q.Ops
	p.Params["mem"] = 1
	p.Params["crash_seed"] = int64(rng.Uint64() >> 1)
	if rng.Chance(0.5) {
		p.Params["startcut_ppm"] = int64(300000 + rng.IntN(600000)) // the restart after a stop is itself cut (inside the start-up repair)
	}
	// acceptance is the richest path: make sure most histories contain one
	if rng.Chance(0.7) {
		p.Ops = append([]harness.Op{{Kind: "mem.pledge", S: "p0"}, {Kind: "mem.accept", S: "a0"}}, p.Ops...)
	}
}

func c22MemExec(p *harness.Plan) *harness.Outcome {
	var mon *c22Mon
	cr := core.NewRng(uint64(p.P("crash_seed", 1)))
	armed := 0
	r, m, fail := runMembership("C22", p, nil, func(m *memRig, kind string) {
		n := m.c.Nodes[cr.IntN(m.c.Cfg.Nodes)]
		if !n.Alive || cr.Chance(0.2) {
			return
		}
		// the operation itself is the last thing the rig does for this op; preparatory deposits and clock
		// jumps come first, so small and medium k both land in interesting places
		m.c.CrashAtCommit(n, 1+cr.IntN(14))
		m.r.fault("crash.armed_before_commit", m.c.Q.Now)
		armed++
	}, func(r *crun) {
		mon = &c22Mon{r: r}
		r.c.AddMonitor(mon)
	})
	if fail != nil {
		return fail
	}
	defer r.c.Close()
	c := r.c
	missing := 0
	if !c.Halt {
		c.DisarmCrashes()
		for _, n := range c.Nodes[:c.Cfg.Nodes] {
			if !n.Alive {
				if err := c.Restart(n); err != nil {
					c.Violate("C22", "restart-failed", err.Error(), n)
				}
			}
		}
	}
	if !c.Halt {
		for _, it := range m.applied {
			m.send(it)
		}
		c.Run(c.Q.Now + 6*time.Second)
		for _, it := range m.applied {
			if !m.everywhere(it) {
				missing++
			}
		}
		if missing > 0 {
			r.out.Probes["not_converged_runs"]++
		}
	}
	r.out.Probes["restarts_checked"] += mon.restarts
	r.out.Probes["crashes_armed_in_consensus_operations"] += armed
	r.out.Probes["history_snapshots_missing_after_settle"] += missing
	relabelPanic(r, "C22")
	return r.finish(mon.restarts > 0 && len(m.records) > 0, map[string]any{"mode": "membership rig", "restarts": mon.restarts, "armed": armed, "records": len(m.records), "missing": missing})
}
