module verifsim

go 1.26.8

require (
	filippo.io/edwards25519 v1.2.0
	github.com/MixinNetwork/mixin v0.0.0
	github.com/anishathalye/porcupine v1.3.0
	github.com/dgraph-io/ristretto/v2 v2.4.2
)

require (
	github.com/cespare/xxhash/v2 v2.3.0 // indirect
	github.com/dgraph-io/badger/v4 v4.9.4 // indirect
	github.com/dustin/go-humanize v1.0.1 // indirect
	github.com/google/flatbuffers v25.12.19+incompatible // indirect
	github.com/klauspost/compress v1.19.0 // indirect
	github.com/klauspost/cpuid/v2 v2.4.0 // indirect
	github.com/pelletier/go-toml v1.9.5 // indirect
	github.com/quic-go/quic-go v0.60.0 // indirect
	github.com/shopspring/decimal v1.4.0 // indirect
	github.com/zeebo/blake3 v0.2.4 // indirect
	golang.org/x/crypto v0.54.0 // indirect
	golang.org/x/net v0.57.0 // indirect
	golang.org/x/sys v0.47.0 // indirect
	google.golang.org/protobuf v1.36.11 // indirect
)

replace github.com/MixinNetwork/mixin => /repo

replace github.com/dgraph-io/badger/v4 => github.com/MixinNetwork/badger/v4 v4.9.4-F1
