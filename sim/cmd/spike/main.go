package main

import (
	"flag"
	"fmt"
	"os"
	"time"

	"verifsim/cluster"

	"github.com/MixinNetwork/mixin/common"
	"github.com/MixinNetwork/mixin/crypto"
)

func main() {
	seed := flag.Uint64("seed", 1, "")
	flag.Parse()
	t0 := time.Now()
	c, err := cluster.New(cluster.Config{Seed: *seed, Nodes: 7, StartOffset: time.Hour})
	if err != nil {
		panic(err)
	}
	defer c.Close()
	if err := c.Boot(); err != nil {
		panic(err)
	}
	fmt.Println("boot", time.Since(t0))
	c.Run(5 * time.Second)
	var hashes []crypto.Hash
	for i := 0; i < 10; i++ {
		tx, _ := c.MakeDeposit(cluster.AssetBTC, common.NewIntegerFromString("1.5"), fmt.Sprintf("ext-%d", i), 0, []int{0}, 1)
		n := c.Nodes[i%7]
		id, err := c.Submit(n, tx)
		fmt.Println("submit", i, id, err)
		hashes = append(hashes, tx.PayloadHash())
		c.Run(c.Q.Now + 500*time.Millisecond)
	}
	c.Run(60 * time.Second)
	for _, h := range hashes {
		fmt.Println(h.String()[:8], c.FinalizedEverywhere(h))
	}
	fmt.Println("steps", c.Steps, "delivered", c.MsgDelivered, "digest", c.Trace.Digest(), "wall", time.Since(t0), c.Stats)
	if c.Violation != nil {
		fmt.Println("VIOLATION", c.Violation.Signature, c.Violation.Detail)
		os.Exit(1)
	}
}
