#!/bin/bash
# usage: confirm_seed.sh <dir with patch.diff demo_test.go meta.json> [nosuite]
# Independent confirmation of a seeded change in a scratch worktree of /repo (never in /repo):
#   1. demo passes on the clean tree, 2. patch applies and builds, 3. demo fails with the patch,
#   4. the whole pinned suite (minus the flaky rpc TestConsensus) passes with the patch.
# prints one line: CONFIRM <dir> clean_demo=pass|fail build=ok|fail patched_demo=fail|pass suite=pass|fail|skipped
d=$(readlink -f "$1"); nosuite=${2:-}
export GOFLAGS=-mod=mod GOPROXY=off
wt=$(mktemp -d /tmp/confirm.XXXXXX)
git -C /repo worktree add --detach -q "$wt" HEAD || { echo "CONFIRM $d worktree-failed"; exit 2; }
cleanup() { git -C /repo worktree remove --force "$wt" 2>/dev/null; rm -rf "$wt"; git -C /repo worktree prune; }
trap cleanup EXIT
demo=$(ls "$d"/demo*_test.go 2>/dev/null | head -1)
[ -z "$demo" ] && demo=$(ls "$d"/*_test.go 2>/dev/null | head -1)
if [ -z "$demo" ]; then echo "CONFIRM $d no-demo-test-file"; exit 2; fi
pkg=$(jq -r '.demo.package_dir // empty' "$d/meta.json" | awk '{print $1}' | sed 's#.*/wt-[A-Za-z0-9]*/##; s#^\./##; s#/$##')
[ -d "$wt/$pkg" ] || pkg=$(grep -m1 '^package ' "$demo" | awk '{print $2}' | sed 's/_test$//')
tests=$(grep -o '^func Test[A-Za-z0-9_]*' "$demo" | sed 's/func //' | paste -sd'|')
cp "$demo" "$wt/$pkg/zz_seed_demo_test.go"
cd "$wt"
go test -vet=off -count=1 -run "^($tests)\$" "./$pkg/" >"$wt.clean.log" 2>&1 && clean=pass || clean=fail
if ! git apply "$d/patch.diff" 2>/dev/null; then echo "CONFIRM $d patch-does-not-apply"; exit 2; fi
go build ./... >"$wt.build.log" 2>&1 && build=ok || build=fail
go test -vet=off -count=1 -run "^($tests)\$" "./$pkg/" >"$wt.patched.log" 2>&1 && patched=pass || patched=fail
rm -f "$wt/$pkg/zz_seed_demo_test.go"
suite=skipped
if [ -z "$nosuite" ] && [ "$build" = ok ]; then
  go test -vet=off -count=1 -timeout 25m -skip '^TestConsensus$' ./... >"$wt.suite.log" 2>&1 && suite=pass || suite=fail
  [ "$suite" = fail ] && grep -E "^(--- FAIL|FAIL|panic)" "$wt.suite.log" | head -5
fi
[ "$clean" = fail ] && tail -5 "$wt.clean.log"
echo "CONFIRM $d pkg=$pkg tests=$tests clean_demo=$clean build=$build patched_demo=$patched suite=$suite"
rm -f "$wt.clean.log" "$wt.build.log" "$wt.patched.log" "$wt.suite.log"
